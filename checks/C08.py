"""C08 - rendering is canonical and data literals round-trip through print and parse.
Deciding method: theorems in coq/Props/C08.v - (1) for every string the rendered literal scans back, through the
scanner step regenerated from Lexer.scan on every run, to one string token with the original characters;
(2) the text of a set / map does not depend on the internal order (hand model Model/Render.v of the __repr__
methods); (3) int numerals read back to the int.  Ties: T for the scanner (regeneration + correspondence), C for
the render model (vm_compute vs str() of values built through ckl.values).  The parser/evaluator half of the round
trip and the host's decimal repr are decided on the implementation by enumeration of the quantifier (partial)."""
import itertools
import math
import re

from checks import lexcheck
from vlib import core, gal, datagen
from vlib.core import Report

IMPORTS = ("From Coq Require Import PrimFloat.\nFrom Ckl Require Import Prelude.PyPrelude Prelude.Enc Model.Values Model.Arith Model.Render.\n"
           "Definition r0 := render (fun _ => []) (fun _ => []).\n")
CH = list("ab '\"\\\n\r\t#/{}<>[],;=%$*()!.|^?+-_:&@~`") + ["\x00", "\x07", "\x1b", "\x7f", "é", "€", "𝄞", " ", "\xa0", "//", "\\n", "\\x41", "<<", ">>", "=>", "\\'", "''"]
DECS = [0.0, -0.0, 1.0, -1.5, 0.1, 1 / 3, 1e15, 1e16, -1e16, 1e17, 1e22, 1e23, 1e-4, 1e-5, 1e-7, 1.5e300, 1.7976931348623157e308, 5e-324, 2.2250738585072014e-308,
        123456789012345680.0, 9007199254740993.0, 0.30000000000000004, 100.0, 1e100, -2.5e-10, 4.35, 1e-300]
PATS = ["a+", "^x$", "[a-z]*", "a/b", "a\\/b", "\\d+", "", " ", "/a", "'", "a b", "#", "a'b\"", "\\\\", "(a|b)", "é"]


def gstr(rnd):
    return "".join(rnd.choice(CH) for _ in range(rnd.choice([0, 1, 1, 2, 3, 5, 8])))


def gdec(rnd):
    if rnd.random() < 0.35:
        return rnd.choice(DECS)
    x = rnd.uniform(-1, 1) * 10.0 ** rnd.randint(-40, 40)
    if rnd.random() < 0.3:
        x = float(round(x))
    return x


def gint(rnd):
    return rnd.choice([0, 1, -1, 7, -12, 10 ** 20, -10 ** 25, 2 ** 63, -2 ** 64, rnd.randint(-1000, 1000), rnd.randint(-10 ** 30, 10 ** 30)])


def scalar(rnd, kinds):
    k = rnd.choice(kinds)
    if k == "null":
        return gal.NULL
    if k == "bool":
        return rnd.random() < 0.5
    if k == "int":
        return gint(rnd)
    if k == "dec":
        return gdec(rnd)
    if k == "str":
        return gstr(rnd)
    return gal.Pat(rnd.choice(PATS))


ALL = ["null", "bool", "int", "int", "dec", "dec", "str", "str", "str", "pat"]


def value(rnd, depth, kinds=ALL, homog=False):
    """data value to the given depth; homog: the elements of a set / the keys of a map are of one scalar kind"""
    if depth == 0 or rnd.random() < 0.35:
        return scalar(rnd, kinds)
    r = rnd.random()
    n = rnd.choice([0, 1, 2, 2, 3, 4, 5])
    if r < 0.4:
        return [value(rnd, depth - 1, kinds, homog) for _ in range(n)]
    if r < 0.7:
        if homog:
            k = [rnd.choice([x for x in kinds if x != "null"] or kinds)]
            return datagen.mkset([scalar(rnd, k) for _ in range(n)])
        return datagen.mkset([value(rnd, depth - 1, kinds, homog) for _ in range(n)])
    if homog:
        k = [rnd.choice([x for x in kinds if x != "null"] or kinds)]
        return datagen.mkmap([(scalar(rnd, k), value(rnd, depth - 1, kinds, homog)) for _ in range(n)])
    return datagen.mkmap([(value(rnd, depth - 1, kinds, homog), value(rnd, depth - 1, kinds, homog)) for _ in range(n)])


def has_container(v):
    return isinstance(v, (list, gal.SetV, gal.MapV))


def orders(v, rnd, cap=120):
    """the same value in other insertion orders (all of them for <= 5 elements, at the top level and one level down)"""
    out = []
    if isinstance(v, (gal.SetV, gal.MapV)) and 2 <= len(v) <= 5:
        for p in itertools.permutations(list(v)):
            out.append(type(v)(p))
    elif isinstance(v, list):
        for i, x in enumerate(v):
            for y in orders(x, rnd, 6)[:6]:
                out.append(v[:i] + [y] + v[i + 1:])
    if isinstance(v, gal.SetV):
        for i, x in enumerate(v):
            for y in orders(x, rnd, 3)[:3]:
                out.append(gal.SetV(tuple(v[:i]) + (y,) + tuple(v[i + 1:])))
    if isinstance(v, gal.MapV):
        for i, (k, x) in enumerate(v):
            for y in orders(x, rnd, 3)[:3]:
                out.append(gal.MapV(tuple(v[:i]) + ((k, y),) + tuple(v[i + 1:])))
            for y in orders(k, rnd, 3)[:3]:
                out.append(gal.MapV(tuple(v[:i]) + ((y, x),) + tuple(v[i + 1:])))
    if len(out) > cap:
        out = rnd.sample(out, cap)
    return out


def main(tier, seed, replay=None):
    rep = Report("C08", tier, seed)
    core.setup_impl_path()
    from vlib import impl
    rnd = core.rng(seed, "C08")
    big = tier == "thorough"
    rep.rule = ("data values to depth 3: NULL, booleans, ints to +-10^30, decimals over all finite magnitudes (5e-324 .. 1.8e308, both signs, integral, -0.0), strings "
                "over an adversarial alphabet (both quotes, backslash, control characters, #, //, brackets, braces, non-ASCII, escape look-alikes), patterns "
                "expressible as literals, empty and nested lists/sets/maps; every insertion order of sets and maps of <= 5 elements at the top level and one "
                "level down; distinct by canonical text plus insertion order; non-trivial when the value is a container or a string with a special character")
    rep.trusted += ["tools/translate/lexer_gen.py (scanner step)", "hand model Model/Render.v of the __repr__ methods, faithful as far as the correspondence run shows",
                    "parser, evaluator and the host's float repr / float(): not modelled, enumeration only (partial)",
                    "out of the property's domain: NaN and infinities (no literal), patterns containing // or ending in / (no literal), dates/objects/functions (not data values)"]
    if replay:
        rep.no_evidence = True
        rep.oblige("replay: re-run the check (cases are regenerated from the seed)", True)
        return rep.finish()
    ok = core.standard_coq(rep, ["Proofs/RenderProofs.vo", "Proofs/RenderCanon.vo"], "Props/C08.v", regen=lexcheck.regen)
    I = impl.new_interpreter(False, False)

    def reval(text):
        I.environment = I.base_environment.newEnv()
        try:
            return ("val", impl.with_timeout(lambda: I.interpret(text, "r"), 3.0))
        except impl.Timeout:
            return ("timeout", None)
        except BaseException as e:
            return ("exc", "%s: %s" % (type(e).__name__, str(e)[:100]))

    # ---- (A) implementation: round trip + numeral shape + order independence
    n = 6000 if not big else 60000
    seen = set()
    bad = {"roundtrip": 0, "shape": 0, "order": 0}
    vals = []
    for i in range(n):
        v = value(rnd, rnd.choice([0, 1, 2, 2, 3, 3]))
        key = (datagen.canon(v), repr(v))
        if key in seen:
            continue
        seen.add(key)
        vals.append(v)
    for v in vals:
        rep.count()
        if has_container(v) or (isinstance(v, str) and any(c in v for c in "'\\\n\r\t")):
            rep.nontriv(datagen.canon(v))
        try:
            iv = datagen.to_impl(v)
            t = str(iv)
        except BaseException as e:
            bad["roundtrip"] += 1
            rep.violation("input", "rendering %s raised %s" % (gal.src_safe(v), type(e).__name__), check="render", value=repr(v))
            continue
        # shape of numerals and strings
        if isinstance(v, int) and not isinstance(v, bool) and not re.fullmatch(r"-?[0-9]+", t):
            bad["shape"] += 1
            rep.violation("input", "int %d renders as %r, not an integer numeral" % (v, t), check="shape", value=repr(v))
        if isinstance(v, float) and not re.fullmatch(r"-?[0-9]+\.[0-9]+", t):
            bad["shape"] += 1
            rep.violation("input", "decimal %r renders as %r, not a numeral with a fractional part" % (v, t), check="shape", value=repr(v))
        if isinstance(v, str) and not isinstance(v, gal.Pat) and not (t[0] == "'" and t[-1] == "'" and not re.search(r"[\n\r\t]", t)):
            bad["shape"] += 1
            rep.violation("input", "string %r renders as %r (not quoted / raw control character)" % (v, t), check="shape", value=repr(v))
        kind, w = reval(t)
        if kind != "val":
            bad["roundtrip"] += 1
            rep.violation("input", "the rendered text %r of %s does not evaluate: %s" % (t, gal.src_safe(v)[:200], w), check="roundtrip", text=t)
            continue
        cw = impl.canon(w)
        if cw != datagen.canon(v) or type(w) is not type(iv):
            if not (cw.replace("-0x0.0p+0", "0x0.0p+0") == datagen.canon(v).replace("-0x0.0p+0", "0x0.0p+0") and type(w) is type(iv)):
                bad["roundtrip"] += 1
                rep.violation("input", "the rendered text %r evaluates to %s, the original is %s" % (t, cw[:200], datagen.canon(v)[:200]), check="roundtrip", text=t)
                continue
        if str(w) != t:
            bad["roundtrip"] += 1
            rep.violation("input", "the value read from %r renders differently: %r" % (t, str(w)), check="rerender", text=t)
        # insertion orders
        for o in orders(v, rnd):
            rep.count()
            to = str(datagen.to_impl(o))
            if to != t:
                bad["order"] += 1
                rep.violation("input", "equal values render differently by construction order: %r vs %r" % (t, to), check="order", text=t, other=to)
                break
    # ---- numeric neighbours: ints beyond 2^53 next to the decimals around them, in every insertion order
    NEIGH = [9007199254740993, 9007199254740992.0, 9007199254740992, 9007199254740994.0, 2 ** 63 + 1, float(2 ** 63), 10 ** 20 + 1, 1e20, 7, 7.5, -9007199254740993, -9007199254740992.0]
    for k in (2, 3):
        for combo in itertools.combinations(NEIGH, k):
            if any(datagen.py_eq(a, b) for a, b in itertools.combinations(combo, 2)):
                continue
            texts_s, texts_m = set(), set()
            for p in itertools.permutations(combo):
                rep.count()
                texts_s.add(str(datagen.to_impl(gal.SetV(p))))
                texts_m.add(str(datagen.to_impl(gal.MapV(tuple((x, i) for i, x in enumerate(p))))))
            if len(texts_s) > 1 or len({re.sub(r"=> \d", "=>", t) for t in texts_m}) > 1:
                bad["order"] += 1
                rep.violation("input", "sets/maps of the numbers %s render differently by insertion order: %s" % (list(combo), sorted(texts_s)[:2]), check="order-numeric", combo=repr(combo))
    # ---- equal elements of different type in one construction (1 and 1.0, 0 and -0.0): the representative kept depends on the order
    for a, b in [(1, 1.0), (0, -0.0), (2 ** 53, float(2 ** 53)), (0.0, -0.0)]:
        V = __import__("ckl.values", fromlist=["x"])
        s1, s2 = V.ValueSet(), V.ValueSet()
        for x in (a, b):
            s1.addItem(datagen.to_impl(x))
        for x in (b, a):
            s2.addItem(datagen.to_impl(x))
        rep.count()
        if s1 == s2 and str(s1) != str(s2):
            rep.violation("input", "the sets built by adding %r then %r and %r then %r are equal but render %s and %s" % (a, b, b, a, s1, s2), check="order-representative", a=repr(a), b=repr(b))
    # ---- equal containers built in two orders, used as elements / keys one level up: one element, one key, one text - and it reads back
    nb = 0
    for inner in [[1, 3], [3, 1, 2], ["b", "a"], [2, 10, 9], [[1], [0]], [1, 9], [9, 1, 17]]:
        for kind in ("set", "map"):
            fw, bw = list(inner), list(reversed(inner))
            mk = (lambda l: gal.SetV(tuple(l))) if kind == "set" else (lambda l: gal.MapV(tuple((x, 7) for x in l)))
            a, b = gal.src(mk(fw)), gal.src(mk(bw))
            prog = ("def a = %s; def b = %s; def s = <<a, b>>; def m = <<<>>>; m[a] = 1; m[b] = 2; def t = <<b>>; append(t, a); "
                    "[a == b, length(s), length(m), length(t), string(s) == string(<<a>>), string(<<a>>) == string(<<b>>), <<a>> == <<b>>, eval(string(s)) == s, string(eval(string(m))) == string(m), [s] == [<<b>>]]" % (a, b))
            k1, v1 = reval(prog)
            rep.count()
            want = "[TRUE, 1, 1, 1, TRUE, TRUE, TRUE, TRUE, TRUE, TRUE]"
            if k1 != "val" or str(v1) != want:
                nb += 1
                rep.violation("input", "%s gives %s, expected %s" % (prog, str(v1)[:200], want), check="nested-order", src=prog)
    rep.oblige("equal sets / maps built in two orders are one element, one key and one text inside a set or map, and that text reads back", nb == 0, "%d failures" % nb)
    # ---- values produced by programs (conversions), not only by the value constructors
    PROGS = ["decimal(9007199254740993)", "decimal(-9007199254740993)", "9007199254740993 * 1.0", "10 * 1.5", "int(2.5e15)", "decimal(7)", "int('12')", "decimal('1e5')",
             "1 / 3.0", "2 * 0.1", "10000000000000000 + 0.5", "[decimal(3), int(3.7), string(1.5)]", "<<decimal(2), 3>>", "<<<decimal(2) => int(4.9)>>>", "round(2.567, 2)",
             "1e5", "abs(-0.0)", "sqrt(2)", "pow(2, 0.5)", "pow(10, 20) * 1.0", "sum([0.1, 0.2])", "list(<<3, 1, 2>>)", "set([2.0, 1, 3])", "'a' + 1.5", "string(1e16)", "string(<<<<>>>>)"]
    pb = 0
    for src in PROGS:
        rep.count()
        k1, v1 = reval(src)
        if k1 != "val":
            continue            # not every program is valid (e.g. 1e5 is not a literal): only values are of interest
        t = str(v1)
        k2, v2 = reval(t)
        if k2 != "val" or type(v2) is not type(v1) or impl.canon(v2) != impl.canon(v1) or str(v2) != t:
            pb += 1
            rep.violation("input", "the value of %s renders as %r, which %s" % (src, t, "does not evaluate: %s" % v2 if k2 != "val" else "evaluates to %s" % impl.canon(v2)[:100]),
                          check="program-value", src=src)
    rep.oblige("values produced by %d conversion programs round-trip through their text" % len(PROGS), pb == 0, "%d failures" % pb)
    rep.oblige("%d data values: the rendered text evaluates to an equal value of the same type that renders to the same text" % len(vals),
               bad["roundtrip"] == 0, "%d failures" % bad["roundtrip"])
    rep.oblige("ints render as integer numerals, decimals as numerals with a fractional part, strings quoted without raw CR/LF/TAB", bad["shape"] == 0, "%d failures" % bad["shape"])
    rep.oblige("every insertion order of sets and maps of <= 5 elements renders identically", bad["order"] == 0, "%d failures" % bad["order"])
    rep.sample({"value": gal.src_safe(vals[-1])[:200]})
    if ok:
        # ---- (B) C-correspondence of the render model (no decimals / dates: their text is a parameter of the model)
        kinds = ["null", "bool", "int", "int", "str", "str", "pat"]
        cv = []
        seen = set()
        for i in range(700 if not big else 4000):
            v = value(rnd, rnd.choice([0, 1, 2, 3]), kinds, homog=True)
            if repr(v) not in seen:
                seen.add(repr(v))
                cv.append(v)
        per = 10
        evals = ["[%s]" % "; ".join("r0 %s" % gal.dval(v) for v in cv[i:i + per]) for i in range(0, len(cv), per)]
        ok2, blocks, err = core.coq_eval_many("c08r", IMPORTS, evals, per_file=8, timeout=900)
        rep.checker_cmds.append("coqc .work/c08r_*.v (vm_compute of Model/Render.v on %d values)" % len(cv))
        if not ok2:
            rep.oblige("C-correspondence: render model evaluates", False, err)
        else:
            got = [x for b in blocks for x in b]
            dis = 0
            for v, m in zip(cv, got):
                rep.count()
                t = str(datagen.to_impl(v))
                if [ord(c) for c in t] != m:
                    dis += 1
                    rep.violation("correspondence", "render model and str() disagree on %s: %r vs %r" % (gal.src_safe(v)[:150], "".join(chr(c) for c in m)[:150], t[:150]),
                                  check="render-model", value=repr(v))
            rep.oblige("C-correspondence: Model/Render.v = str() on %d values (strings, ints, patterns, nested lists/sets/maps)" % len(cv), dis == 0, "%d disagreements" % dis)
        # ---- (C) T-correspondence of the scanner on the rendered texts
        texts = [str(datagen.to_impl(v)) for v in vals if isinstance(v, str) or rnd.random() < 0.05]
        lexcheck.t_correspondence(rep, [t for t in texts if len(t) < 80][:400], "c08")
    if big:
        core.coqchk(rep, "Ckl.Props.C08")
    return rep.finish()
