"""C02 - operators evaluate per the language definition; integer arithmetic is exact.

Deciding method: theorems in coq/Props/C02.v (exact integer arithmetic, int-iff,
NULL, short circuit, booleans only, chains) about the hand model Model/Arith.v,
a generated-table theorem for `is not P` (Gen/PredTable.v is regenerated from
parse_pred_expr on every run), and a vm_compute correspondence: expression
trees are rendered with only the parentheses the stated precedence requires
(and again with redundant ones), parsed and evaluated by the implementation,
and evaluated as trees by the model."""
import itertools
import os

from vlib import core, gal, exprparse
from vlib.core import Report, zlit
from vlib.gal import NULL

IMPORTS = "From Coq Require Import PrimFloat.\nFrom Ckl Require Import Prelude.PyPrelude Prelude.Enc Model.Values Model.Arith Model.EncVal.\n"

# precedence levels of the statement: or < and < not < comparison < additive < multiplicative < unary
P_OR, P_AND, P_NOT, P_CMP, P_ADD, P_MUL, P_UN, P_PRIM = 1, 2, 3, 4, 5, 6, 7, 8
AOPS = {"+": ("Add", P_ADD), "-": ("Sub", P_ADD), "*": ("Mul", P_MUL), "/": ("Div", P_MUL), "%": ("Mod", P_MUL)}
RELOPS = {"<": "Lt", "<=": "Le", ">": "Gt", ">=": "Ge", "==": "EqOp", "!=": "NeOp", "<>": "NeOp"}

INTS = [0, 1, 2, 3, 7, -1, -7, 10, 2 ** 63, 2 ** 64 + 1, -(2 ** 70) - 3, 9007199254740993, 10 ** 30]
DECS = [0.5, 2.0, -1.5, 10000000000.0, 0.0, 3.25, 1e-3]
STRS = ["a", "ab", "", "b"]
LISTS = [[1, 2], [], ["a"], [2, 1, 2]]


class T:
    """expression tree: kind in lit var neg bin chain not and or in"""

    def __init__(self, kind, *a):
        self.kind = kind
        self.a = a


def lit(v):
    return T("lit", v)


def gallina(t):
    k = t.kind
    if k == "lit":
        return "(XLit %s)" % gal.dval(t.a[0])
    if k == "var":
        return "(XVar %d)" % t.a[0]
    if k == "neg":
        return "(XNeg %s)" % gallina(t.a[0])
    if k == "bin":
        return "(XBin %s %s %s)" % (AOPS[t.a[0]][0], gallina(t.a[1]), gallina(t.a[2]))
    if k == "chain":
        return "(XChain %s [%s])" % (gallina(t.a[0]), "; ".join("(%s, %s)" % (RELOPS[o], gallina(e)) for o, e in t.a[1]))
    if k == "not":
        return "(XNot %s)" % gallina(t.a[0])
    if k in ("and", "or"):
        return "(%s [%s])" % ("XAnd" if k == "and" else "XOr", "; ".join(gallina(e) for e in t.a[0]))
    if k == "in":
        return "(XIn %s %s)" % (gallina(t.a[0]), gallina(t.a[1]))
    raise ValueError(k)


def prec(t):
    k = t.kind
    if k == "lit":
        v = t.a[0]
        if isinstance(v, (int, float)) and not isinstance(v, bool) and (v < 0):
            return P_UN
        return P_PRIM
    return {"var": P_PRIM, "neg": P_UN, "bin": None, "chain": P_CMP, "not": P_NOT, "and": P_AND, "or": P_OR,
            "in": P_UN}.get(k) or AOPS[t.a[0]][1]


def render(t, need, rnd, redundant):
    """source text of t in a position that requires precedence >= need"""
    k = t.kind
    p = prec(t)
    if k == "lit":
        v = t.a[0]
        if p == P_UN:   # negative number: a unary-level literal
            s = "-" + gal.src(-v).strip("()") if not isinstance(v, float) else "-" + gal.dec_src(-v)
        else:
            s = gal.src(v)
    elif k == "var":
        s = "v%d" % t.a[0]
    elif k == "neg":
        s = "-" + render(t.a[0], P_PRIM, rnd, redundant)
        if t.a[0].kind == "lit" and not s.startswith("-("):
            s = "-(" + s[1:] + ")"   # `-<numeral>` would be read as a negative literal, not as 0 - x
    elif k == "bin":
        op = t.a[0]
        s = render(t.a[1], p, rnd, redundant) + " " + op + " " + render(t.a[2], p + 1, rnd, redundant)
    elif k == "chain":
        s = render(t.a[0], P_ADD, rnd, redundant)
        for o, e in t.a[1]:
            s += " " + o + " " + render(e, P_ADD, rnd, redundant)
    elif k == "not":
        s = "not " + render(t.a[0], P_CMP, rnd, redundant)
    elif k == "and":
        s = " and ".join(render(e, P_NOT, rnd, redundant) for e in t.a[0])
    elif k == "or":
        s = " or ".join(render(e, P_AND, rnd, redundant) for e in t.a[0])
    elif k == "in":
        s = render(t.a[0], P_PRIM if not (t.a[0].kind == "lit" and prec(t.a[0]) == P_UN) else P_UN, rnd, redundant) + \
            " in " + render(t.a[1], P_PRIM, rnd, redundant)
    if p < need or (redundant and rnd.random() < 0.35):
        s = "(" + s + ")"
    return s


def gen_num(rnd, d, nv):
    if d == 0 or rnd.random() < 0.25:
        r = rnd.random()
        if r < 0.5:
            return lit(rnd.choice(INTS))
        if r < 0.7:
            return lit(rnd.choice(DECS))
        if r < 0.8:
            return lit(NULL)
        if nv:
            return T("var", rnd.randrange(nv))
        return lit(rnd.choice(INTS))
    r = rnd.random()
    if r < 0.08:
        return T("neg", gen_num(rnd, d - 1, nv))
    return T("bin", rnd.choice("+-*/%+-*"), gen_num(rnd, d - 1, nv), gen_num(rnd, d - 1, nv))


def gen_any(rnd, d, nv):
    r = rnd.random()
    if r < 0.6:
        return gen_num(rnd, d, nv)
    if r < 0.75:
        return lit(rnd.choice(STRS))
    if r < 0.85:
        return lit(rnd.choice(LISTS))
    if r < 0.9 and d > 0:
        return T("bin", rnd.choice("+*-"), gen_any(rnd, d - 1, nv), gen_any(rnd, d - 1, nv))
    return gen_bool(rnd, max(0, d - 1), nv)


def gen_bool(rnd, d, nv):
    if d == 0:
        return lit(rnd.choice([True, False]))
    r = rnd.random()
    if r < 0.35:
        n = rnd.choice([1, 1, 1, 2, 3])
        same = rnd.random() < 0.8
        def operand():
            if same:
                return gen_num(rnd, d - 1, nv)
            return gen_any(rnd, d - 1, nv)
        ops = [rnd.choice(list(RELOPS)) for _ in range(n)]
        if not same:
            ops = [rnd.choice(["==", "!=", "<>"]) for _ in range(n)]
        return T("chain", operand(), [(o, operand()) for o in ops])
    if r < 0.5:
        return T("not", gen_bool(rnd, d - 1, nv))
    if r < 0.7:
        return T("and", [gen_boolish(rnd, d - 1, nv) for _ in range(rnd.choice([2, 2, 3]))])
    if r < 0.9:
        return T("or", [gen_boolish(rnd, d - 1, nv) for _ in range(rnd.choice([2, 2, 3]))])
    if r < 0.97:
        c = rnd.choice([lit(rnd.choice(LISTS)), lit(rnd.choice(STRS)), lit([1, 2.0, "a", 3])])
        x = lit(rnd.choice(STRS)) if isinstance(c.a[0], str) else lit(rnd.choice([1, 2, 2.0, "a", 7, NULL]))
        return T("in", x, c)
    return lit(rnd.choice([True, False]))


def gen_boolish(rnd, d, nv):
    if rnd.random() < 0.12:
        return gen_any(rnd, d, nv)
    return gen_bool(rnd, d, nv)


def depth(t):
    if t.kind in ("lit", "var"):
        return 0
    subs = []
    for x in t.a:
        if isinstance(x, T):
            subs.append(x)
        elif isinstance(x, list):
            for y in x:
                subs.append(y[1] if isinstance(y, tuple) else y)
    return 1 + max([depth(s) for s in subs] or [0])


def pair_tree(a, o1, b, o2, c):
    """the tree the stated precedence and left associativity give to `a o1 b o2 c`"""
    def lvl(o):
        if o in AOPS:
            return AOPS[o][1]
        if o in RELOPS:
            return P_CMP
        return {"and": P_AND, "or": P_OR}[o]

    def mk(o, x, y):
        if o in AOPS:
            return T("bin", o, x, y)
        if o in RELOPS:
            if x.kind == "chain":
                return T("chain", x.a[0], x.a[1] + [(o, y)])
            return T("chain", x, [(o, y)])
        if x.kind == o:
            return T(o, x.a[0] + [y])
        return T(o, [x, y])
    if lvl(o1) >= lvl(o2):
        return mk(o2, mk(o1, a, b), c)
    return mk(o1, a, mk(o2, b, c))


def flat_render(a, o1, b, o2, c):
    return "%s %s %s %s %s" % (a, o1, b, o2, c)


def build_cases(tier, rnd):
    cases = []  # (source, gallina term, env values, tag)
    # exhaustive operator pairs -------------------------------------------
    allops = list(AOPS) + ["<", "<=", ">", ">=", "==", "!="] + ["and", "or"]
    triples = [(7, 2, 3), (2, 7, 2), (1, 0, 5), (True, False, True), (6, 3, 2), (-7, 2, 2), (2.5, 2, 0.5), (3, 3, 3)]
    if tier != "thorough":
        triples = triples[:5]
    for (x, y, z) in triples:
        for o1 in allops:
            for o2 in allops:
                t = pair_tree(lit(x), o1, lit(y), o2, lit(z))
                srctxt = flat_render(render(lit(x), P_UN, rnd, False), o1, render(lit(y), P_UN, rnd, False), o2,
                                     render(lit(z), P_UN, rnd, False))
                cases.append((srctxt, gallina(t), [], "pair"))
    # unary / binary combinations ---------------------------------------------
    for o in allops:
        for (x, y) in [(7, 2), (True, False), (2, 7), (0, 0)]:
            xs, ys = gal.src(x), gal.src(y)
            if o in ("and", "or") or o in RELOPS:
                t = pair_tree(lit(x), o, lit(y), o, lit(y))
                # not binds looser than comparison, tighter than and/or
                t1 = T("not", T("chain", lit(x), [(o, lit(y))])) if o in RELOPS else \
                    T(o, [T("not", lit(x)), lit(y)])
                cases.append(("not %s %s %s" % (xs, o, ys), gallina(t1), [], "unary"))
            if o in AOPS and not isinstance(x, bool):
                cases.append(("-v0 %s %s" % (o, ys), gallina(T("bin", o, T("neg", T("var", 0)), lit(y))), [x], "unary"))
                cases.append(("%s %s -v0" % (xs, o), gallina(T("bin", o, lit(x), T("neg", T("var", 0)))), [y], "unary"))
                cases.append(("-%s %s %s" % (xs, o, ys), gallina(T("bin", o, lit(-x), lit(y))), [], "unary"))
    # integer arithmetic at large magnitudes ------------------------------------
    big = [2 ** 53 + 1, 2 ** 63 - 1, 2 ** 63, -(2 ** 63) - 1, 2 ** 64 + 3, 10 ** 30 + 7, -(10 ** 25) - 1, 3, -3, 1, -1, 7, 0]
    for a in big:
        for b in big:
            for o in "+-*/%":
                if rnd.random() < (0.35 if tier != "thorough" else 1.0):
                    cases.append(("%s %s %s" % (gal.src(a), o, gal.src(b)), gallina(T("bin", o, lit(a), lit(b))), [], "bigint"))
    # comparisons of ints that are neighbours beyond 2^53 (and in, chains): exact, never through a binary fraction -------
    near = [2 ** 53, 2 ** 53 + 1, 2 ** 63, 2 ** 63 + 1, 2 ** 63 + 2, 10 ** 30, 10 ** 30 + 1, -(2 ** 63) - 1, -(2 ** 63) - 2, 5, 6]
    for a in near:
        for b in near:
            if abs(a - b) <= 2:
                for o in RELOPS:
                    cases.append(("%s %s %s" % (gal.src(a), o, gal.src(b)), gallina(T("chain", lit(a), [(o, lit(b))])), [], "bigcmp"))
                cases.append(("%s < %s <= %s" % (gal.src(a), gal.src(b), gal.src(b + 1)), gallina(T("chain", lit(a), [("<", lit(b)), ("<=", lit(b + 1))])), [], "bigcmp"))
                cases.append(("v0 < v1 or v0 == v1 or v0 > v1", gallina(T("or", [T("chain", T("var", 0), [("<", T("var", 1))]), T("chain", T("var", 0), [("==", T("var", 1))]),
                                                                               T("chain", T("var", 0), [(">", T("var", 1))])])), [a, b], "bigcmp"))
    # an operand used twice: evaluating one occurrence must not change what the other one evaluates to ------------------
    for v in ([1], [], [1, 2], [[1]], "ab", 5, 2.5):
        for a in (2, "x", 2.5, True, None):
            for b in (3, "y"):
                V, A, B = T("var", 0), lit(a), lit(b)
                sa, sb = gal.src(a), gal.src(b)
                for srctxt, t in [("v0 + %s + v0" % sa, T("bin", "+", T("bin", "+", V, A), V)),
                                  ("(v0 + %s) + (v0 + %s)" % (sa, sb), T("bin", "+", T("bin", "+", V, A), T("bin", "+", V, B))),
                                  ("v0 + %s != v0" % sa, T("chain", T("bin", "+", V, A), [("!=", V)])),
                                  ("v0 + %s == v0 + %s" % (sa, sa), T("chain", T("bin", "+", V, A), [("==", T("bin", "+", V, A))])),
                                  ("v0 + %s + %s == v0 + %s + %s" % (sa, sb, sa, sb), T("chain", T("bin", "+", T("bin", "+", V, A), B), [("==", T("bin", "+", T("bin", "+", V, A), B))])),
                                  ("v0 * 2 + v0", T("bin", "+", T("bin", "*", V, lit(2)), V)),
                                  ("v0 - %s + v0" % sa, T("bin", "+", T("bin", "-", V, A), V))]:
                    if a is None and " - " in srctxt:
                        continue          # list - NULL is not arithmetic; the empty list and the others differ (outside the statement)
                    cases.append((srctxt, gallina(t), [v], "shared"))
    # random trees ---------------------------------------------------------------
    n = 2500 if tier != "thorough" else 30000
    for i in range(n):
        nv = rnd.choice([0, 0, 2, 3])
        env = [rnd.choice(INTS + DECS + [NULL]) for _ in range(nv)]
        d = rnd.choice([1, 2, 2, 3, 3, 4, 5])
        t = rnd.choice([gen_num, gen_bool, gen_bool, gen_any])(rnd, d, nv)
        g = gallina(t)
        cases.append((render(t, 0, rnd, False), g, env, "tree"))
        cases.append((render(t, 0, rnd, True), g, env, "tree+parens"))
    return cases


def run_impl(I, impl, src, env):
    prog = "".join("def v%d = %s; " % (i, gal.src(v)) for i, v in enumerate(env)) + src
    return prog, gal.impl_outcome(impl.run_src(I, prog))


PRED_VALUES = ["NULL", "TRUE", "0", "5", "-3", "2.5", "0.0", "'abc'", "''", "'12'", "'20200101'", "'2020010112'", "'1230'",
               "[]", "[1]", "<<>>", "<<1>>", "<<<>>>", "<<<1 => 2>>>", "<**>", "<*a=1*>", "fn(x) x", "//a//",
               "date('20200101')", "'a b'", "'A1'"]
PREDS = ["empty", "zero", "negative", "numerical", "alphanumerical", "date with hour", "date", "time", "string", "int",
         "decimal", "boolean", "pattern", "None", "func", "input", "output", "list", "set", "map", "object", "node",
         "in [1, 'abc', NULL]", "numerical min_len 2", "alphanumerical max_len 2"]
POSTFIX = [("in", "not in", ["[1, 'abc']", "<<5>>", "'xabcx'"]), ("starts with", "starts not with", ["'a'", "'x'"]),
           ("ends with", "ends not with", ["'c'", "'x'"]), ("contains", "contains not", ["'b'", "'x'"]),
           ("matches", "matches not", ["//a.*//", "//x//"])]


def predicate_oracle(rep, I, impl):
    """`x is not P` must be the negation of `x is P` on values of every kind (implementation side)"""
    n = 0
    for v in PRED_VALUES:
        for p in PREDS:
            a = impl.run_src(I, "def x = %s; x is %s" % (v, p))
            b = impl.run_src(I, "def x = %s; x is not %s" % (v, p))
            n += 1
            rep.nontriv(("pred", v, p))
            ok = (a[0] == "val" and b[0] == "val" and {a[1], b[1]} == {"(b 0)", "(b 1)"}) or \
                 (a[0] == b[0] and a[0] != "val")   # both fail alike (a host exception here is C13's business)
            if not ok:
                rep.violation("input", "`%s is %s` gives %s but `%s is not %s` gives %s" % (v, p, a[:2], v, p, b[:2]),
                              check="is-not", value=v, pred=p)
        for pos, neg, args in POSTFIX:
            for arg in args:
                if v.startswith("fn") or v.startswith("date"):
                    continue
                a = impl.run_src(I, "def x = %s; x %s %s" % (v, pos, arg))
                b = impl.run_src(I, "def x = %s; x %s %s" % (v, neg, arg))
                n += 1
                ok = (a[0] == "val" and b[0] == "val" and {a[1], b[1]} == {"(b 0)", "(b 1)"}) or (a[0] == b[0] and a[0] != "val")
                if not ok:
                    rep.violation("input", "`%s %s %s` gives %s but `%s %s %s` gives %s" % (v, pos, arg, a[:2], v, neg, arg, b[:2]),
                                  check="is-not", value=v, pred=pos + " " + arg)
    rep.count(n)
    rep.cov["is_not_pairs_checked"] = n
    rep.sample({"kind": "is-not", "program": "def x = [1]; x is not list", "must_negate": "def x = [1]; x is list"})


def regen(rep):
    from tools.translate import pred_gen, pykernel
    try:
        text = pred_gen.generate(core.SRC)
    except pykernel.Unsupported as e:
        rep.oblige("translate parse_pred_expr -> Gen/PredTable.v", False, "translator failed closed: %s" % e)
        return False
    except Exception as e:
        rep.oblige("translate parse_pred_expr -> Gen/PredTable.v", False, "translator error: %r" % e)
        return False
    with core.CoqLock():
        core.write_if_changed(os.path.join(core.COQ, "Gen", "PredTable.v"), text)
    rep.oblige("translate parse_pred_expr -> Gen/PredTable.v", True)
    return True


def main(tier, seed, replay=None):
    rep = Report("C02", tier, seed)
    core.setup_impl_path()
    from vlib import impl
    rnd = core.rng(seed, "C02")
    rep.rule = ("expression trees over ints (to 10^30), decimals, booleans, NULL, strings, lists and variables: every ordered pair "
                "of the 13 binary operators in `a op1 b op2 c` over fixed operand triples, unary/binary combinations, integer "
                "arithmetic on a grid of large operands, random trees to depth 5 rendered with minimal and with redundant "
                "parentheses; all `is [not] P` forms on values of every kind; distinct by source text, non-trivial when the "
                "tree has at least one operator")
    rep.trusted += ["coq/Model/Arith.v, Model/Values.v are hand models of the natives add/sub/mul/div/mod, of equality/order and of "
                    "NodeAnd/NodeOr/NodeNot/NodeIn: faithful only as far as the correspondence run shows",
                    "decimal results rely on PrimFloat = IEEE-754 binary64 = CPython float arithmetic",
                    "coq/Model/ExprParse.v is a hand model of the operator core of the parser (parse_expression .. parse_primary_expr with calls): the precedence "
                    "theorems (C02_parse_render, C02_parse_chain, C02_parse_neg) are about it; it is tied to parse_script by running both on generated token lists and on the "
                    "canonical texts of generated trees; the rest of the parser (statements, literals of collections, predicates, derefs) has no model"]
    I = impl.new_interpreter(False, False)
    if replay:
        return do_replay(rep, replay, I, impl)
    ok = core.standard_coq(rep, ["Proofs/ArithProofs.vo", "Model/EncVal.vo", "Proofs/ExprParseMore.vo"], "Props/C02.v", regen=regen)
    if ok:
        cases = build_cases(tier, rnd)
        evals = []
        per = 60
        for i in range(0, len(cases), per):
            chunk = cases[i:i + per]
            evals.append("[" + "; ".join("enc_outcome (eval [%s] %s)" % ("; ".join(gal.dval(v) for v in env), g)
                                         for (_, g, env, _) in chunk) + "]")
        ok2, blocks, err = core.coq_eval_many("c02", IMPORTS, evals, per_file=8, timeout=900)
        rep.checker_cmds.append("coqc .work/c02_*.v (vm_compute of Model/Arith.v on the generated expression trees)")
        if not ok2:
            rep.oblige("correspondence: model evaluates on the generated cases", False, err)
        else:
            got = [x for b in blocks for x in b]
            dis = 0
            skipped = 0
            tags = {}
            for (srctxt, g, env, tag), m in zip(cases, got):
                mo = gal.decode_outcome(m)
                prog, io = run_impl(I, impl, srctxt, env)
                rep.count()
                tags[tag] = tags.get(tag, 0) + 1
                if mo == ("unmodelled",):
                    skipped += 1
                    continue
                rep.nontriv(prog)
                if mo != io:
                    dis += 1
                    rep.violation("input", "%s: implementation %s, model of the stated semantics %s" % (prog, io, mo),
                                  check="correspondence", program=prog, want=list(mo), tag=tag)
            rep.oblige("correspondence: %d expression cases agree (%d outside the modelled fragment skipped)" % (len(cases) - skipped, skipped),
                       dis == 0, "%d disagreements" % dis)
            rep.cov["case_kinds"] = tags
            rep.cov["skipped_unmodelled"] = skipped
            for k in (0, len(cases) // 2, len(cases) - 1):
                rep.sample({"program": cases[k][0], "env": [repr(v) for v in cases[k][2]], "model": got[k]})
    predicate_oracle(rep, I, impl)
    if ok:
        # precedence and association: the hand model of the operator core of the parser against parse_script
        exprparse.correspondence(rep, rnd, tier)
    if tier == "thorough":
        core.coqchk(rep, "Ckl.Props.C02")
    return rep.finish()


def do_replay(rep, path, I, impl):
    import json
    body = json.load(open(path))
    rep.no_evidence = True
    n = 0
    for v in body.get("violations", []):
        if v.get("check") == "correspondence":
            io = gal.impl_outcome(impl.run_src(I, v["program"]))
            if list(io) != list(v["want"]):
                print("REPRODUCED: %s gives %s, stated semantics give %s" % (v["program"], io, v["want"]))
                rep.violation("input", "%s gives %s" % (v["program"], io), check="correspondence", program=v["program"], want=v["want"])
                n += 1
        elif v.get("check") == "is-not":
            a = impl.run_src(I, "def x = %s; x is %s" % (v["value"], v["pred"]))
            b = impl.run_src(I, "def x = %s; x is not %s" % (v["value"], v["pred"]))
            if not (a[0] == "val" and b[0] == "val" and {a[1], b[1]} == {"(b 0)", "(b 1)"}) and not (a[0] == b[0] and a[0] != "val"):
                print("REPRODUCED: %s is [not] %s -> %s / %s" % (v["value"], v["pred"], a[:2], b[:2]))
                rep.violation("input", "is/is not disagree", check="is-not", value=v["value"], pred=v["pred"])
                n += 1
        rep.count()
    if not n:
        print("replay: nothing reproduced")
    rep.oblige("replay ran", True)
    return rep.finish()
