"""C05 - errors reach the nearest matching handler and finally runs exactly once.
Deciding method: theorems in coq/Props/C05.v about block_sem (every body, handler, finally part and
nesting), tied to NodeBlock.evaluate by the evaluator correspondence on generated do/catch/finally nests
with errors injected at every statement position, plus fixed scenarios on the implementation."""
from checks import evalcheck


def oracle(rep, rnd, tier, impl):
    S = "(s" + "".join(" %d" % ord(c) for c in "ERROR") + ")"
    cases = [
        ("def l = []; do append(l, 1) finally append(l, 2) end; l", "(list (i 1) (i 2))"),
        ("def l = []; do do error 'x' finally append(l, 1) end catch 'x' append(l, 2) finally append(l, 3) end; l", "(list (i 1) (i 2) (i 3))"),
        ("def l = []; def f() do do return 1 finally append(l, 9) end; append(l, 8) end; [f(), l]", "(list (i 1) (list (i 9)))"),
        ("def l = []; for i in [1, 2, 3] do do if i == 2 then break; append(l, i) finally append(l, 10 * i) end end; l", "(list (i 1) (i 10) (i 20))"),
        ("def l = []; for i in [1, 2, 3] do do if i == 2 then continue; append(l, i) finally append(l, 10 * i) end end; l",
         "(list (i 1) (i 10) (i 20) (i 3) (i 30))"),
        ("do error 'a' catch 'a' 1 catch all 2 end", "(i 1)"),
        ("do error 'b' catch 'a' 1 catch all 2 end", "(i 2)"),
        ("do do error 'b' catch 'a' 1 end catch 'b' 3 end", "(i 3)"),
        ("do do error 'b' catch 'b' 1 end catch 'b' 3 end", "(i 1)"),
        ("do 1 / 0 catch 'ERROR' 'rt' end", "(s 114 116)"),
        ("do undefined_zz catch 'ERROR' 'rt' end", "(s 114 116)"),
        ("do error [1, 2] catch [1, 2] 'list' end", "(s 108 105 115 116)"),
        ("do error <<<'k' => 1>>> catch <<<'k' => 1>>> 'map' end", "(s 109 97 112)"),
        ("do error 1 catch 1.0 'num' end", "(s 110 117 109)"),
        ("def l = []; do do error 'a' catch 'a' do append(l, 1); error 'b' end finally append(l, 2) end catch 'b' append(l, 3) end; l",
         "(list (i 1) (i 2) (i 3))"),
        ("def l = []; do append(l, 1); error 'x'; append(l, 2) catch all append(l, 3) end; l", "(list (i 1) (i 3))"),
        ("def l = []; do do append(l, 1) finally error 'f' end catch 'f' append(l, 2) end; l", "(list (i 1) (i 2))"),
    ]
    n = evalcheck.programs_oracle(rep, impl, cases, "scenario")
    # an uncaught error leaves the interpreter as a runtime error carrying the value
    I = impl.new_interpreter(False, False)
    for v, want in (("'x'", "(s 120)"), ("[1, <<2>>]", "(list (i 1) (set (i 2)))"), ("NULL", "null"), ("7", "(i 7)")):
        out = impl.run_src(I, "def f() error %s; do f() catch 'other' 1 end" % v)
        rep.count()
        if out[:2] != ("err", want):
            rep.violation("input", "uncaught error %s leaves the interpreter as %s" % (v, out[:2]), check="uncaught", value=v)
    rep.cov["scenario_cases"] = n + 4


def main(tier, seed, replay=None):
    return evalcheck.run(
        "C05", "C05", "Props/C05.v", tier, seed, replay,
        rule=("generated nests (depth <= 4) of do/catch/finally blocks inside functions and loops, with user errors of every data kind and "
              "runtime errors (undefined name, division by zero, bad index, type error) injected at statement positions, handlers and finally "
              "parts that raise or return; each program keeps a trace list; distinct by source text, non-trivial when longer than 60 characters"),
        trusted=[], oracle=oracle)
