"""C05 - errors reach the nearest matching handler and finally runs exactly once.
Deciding method: theorems in coq/Props/C05.v about block_sem (every body, handler, finally part and
nesting), tied to NodeBlock.evaluate by the evaluator correspondence on generated do/catch/finally nests
with errors injected at every statement position, plus fixed scenarios on the implementation."""
from checks import evalcheck


def oracle(rep, rnd, tier, impl):
    S = "(s" + "".join(" %d" % ord(c) for c in "ERROR") + ")"
    cases = [
        ("def l = []; do append(l, 1) finally append(l, 2) end; l", "(list (i 1) (i 2))"),
        ("def l = []; do do error 'x' finally append(l, 1) end catch 'x' append(l, 2) finally append(l, 3) end; l", "(list (i 1) (i 2) (i 3))"),
        ("def l = []; def f() do do return 1 finally append(l, 9) end; append(l, 8) end; [f(), l]", "(list (i 1) (list (i 9)))"),
        ("def l = []; for i in [1, 2, 3] do do if i == 2 then break; append(l, i) finally append(l, 10 * i) end end; l", "(list (i 1) (i 10) (i 20))"),
        ("def l = []; for i in [1, 2, 3] do do if i == 2 then continue; append(l, i) finally append(l, 10 * i) end end; l",
         "(list (i 1) (i 10) (i 20) (i 3) (i 30))"),
        ("do error 'a' catch 'a' 1 catch all 2 end", "(i 1)"),
        ("do error 'b' catch 'a' 1 catch all 2 end", "(i 2)"),
        ("do do error 'b' catch 'a' 1 end catch 'b' 3 end", "(i 3)"),
        ("do do error 'b' catch 'b' 1 end catch 'b' 3 end", "(i 1)"),
        ("do 1 / 0 catch 'ERROR' 'rt' end", "(s 114 116)"),
        ("do undefined_zz catch 'ERROR' 'rt' end", "(s 114 116)"),
        ("do error [1, 2] catch [1, 2] 'list' end", "(s 108 105 115 116)"),
        ("do error <<<'k' => 1>>> catch <<<'k' => 1>>> 'map' end", "(s 109 97 112)"),
        ("do error 1 catch 1.0 'num' end", "(s 110 117 109)"),
        ("def l = []; do do error 'a' catch 'a' do append(l, 1); error 'b' end finally append(l, 2) end catch 'b' append(l, 3) end; l",
         "(list (i 1) (i 2) (i 3))"),
        ("def l = []; do append(l, 1); error 'x'; append(l, 2) catch all append(l, 3) end; l", "(list (i 1) (i 3))"),
        ("def l = []; do do append(l, 1) finally error 'f' end catch 'f' append(l, 2) end; l", "(list (i 1) (i 2))"),
        # the value of an error raised by evaluated text; an argument whose rendering fails while the stack trace is built
        ("do eval(\"error 'X'\") catch 'X' 'ok' end", "(s 111 107)"),
        ("do eval(\"def z = 1; error [z, 2]\") catch [1, 2] 'ok' end", "(s 111 107)"),
        ("def o = <* _str_ = fn(self) error 'S' *>; def f(x) error 'X'; do f(o) catch 'X' 'ok' end", "(s 111 107)"),
        ("def o = <* _str_ = fn(self) 1 / 0 *>; def f(x, y) error [1]; do f(1, o) catch [1] 'ok' end", "(s 111 107)"),
        ("def o = <* _str_ = fn(self) 'OBJ' *>; string(o) + string([o])", "(s 79 66 74 91 79 66 74 93)"),
        # a block whose only statement is a block: an error raised by a handler (or by evaluating a catch value) of the inner one
        # belongs to the handlers of the outer one
        ("do do error 'io' catch 'io' error 'wrapped' end catch 'wrapped' 'outer' end", "(s 111 117 116 101 114)"),
        ("def l = []; def f() do do error 'io' catch 'io' do append(l, 1); error 'wrapped' end end catch 'wrapped' append(l, 2) finally append(l, 3) end; f(); l", "(list (i 1) (i 2) (i 3))"),
        ("def r = []; for i in [1, 2] do do do error i catch 1 1 / 0 catch 2 undefined_zz end catch 'ERROR' append(r, i) end end; r", "(list (i 1) (i 2))"),
        ("do do error 'a' catch undefined_zz 1 end catch 'ERROR' 'outer' end", "(s 111 117 116 101 114)"),
        ("do do do error 'a' catch 'a' error 'b' end catch 'b' error 'c' end catch 'c' 'third' end", "(s 116 104 105 114 100)"),
        ("do do error 'a' catch 'a' error 'b' end; 5 catch 'b' 'two statements' end", "(s 116 119 111 32 115 116 97 116 101 109 101 110 116 115)"),
        # only the clauses up to the matching one are looked at: a later clause's value is neither evaluated nor can it fail
        ("do error 1 catch 1 'handled' catch undefined_zz 'other' end", "(s 104 97 110 100 108 101 100)"),
        ("do error 1 catch all 'any' catch undefined_zz 'other' end", "(s 97 110 121)"),
        ("def n = 0; def v() do n += 1; 'e' end; def r = do error 'x' catch 'x' 'h' catch v() 'o' end; [r, n]", "(list (s 104) (i 0))"),
        ("def n = 0; def v() do n += 1; 'e' end; def r = []; for i in [1, 2] do append(r, do error 'e' catch v() i catch 1 / 0 'z' finally n += 10 end) end; [r, n]", "(list (list (i 1) (i 2)) (i 22))"),
        # error values that cannot be turned into text (an output stream, an object whose _str_ fails), functions, patterns, dates:
        # the handler is chosen by the value, nothing about the value is computed on the way
        ("def o = <*_str_ = fn(self) error 'S'*>; do do error o catch 'ERROR' 'inner' catch 'S' 'innerS' end catch o 'outer' end", "(s 111 117 116 101 114)"),
        ("def o = <*_str_ = fn(self) 1 / 0*>; def l = []; for i in [1, 2] do do error o catch 'ERROR' append(l, 100) catch o append(l, i) end end; l", "(list (i 1) (i 2))"),
        ("def l = []; do do error stdout catch 'ERROR' append(l, 1) finally append(l, 2) end catch stdout append(l, 3) finally append(l, 4) end; l", "(list (i 2) (i 3) (i 4))"),
        ("do error stdout catch 'ERROR' 1 catch all 2 end", "(i 2)"),
        ("def f = fn(x) x; do error f catch 'ERROR' 1 catch f 2 end", "(i 2)"),
        ("do error //a+// catch 'ERROR' 1 catch //a+// 2 end", "(i 2)"),
        ("do error date('20200102') catch 'ERROR' 1 catch date('20200102') 2 end", "(i 2)"),
        ("def g() error stdout; def l = []; do g() catch 'ERROR' append(l, 1) catch all append(l, 2) end; l", "(list (i 2))"),
    ]
    # every kind of runtime failure (raised by the language, by a native as a host exception of whatever class, by unbounded
    # recursion) x every nest: the nearest matching handler gets it as 'ERROR', finally parts run once, nothing after the failure runs
    ERRS = S
    faults = ["undefined_zz", "1 / 0", "[1, 2][7]", "not 5", "'abc'[9]", "<<<1 => 2>>>[3]", "error 'ERROR'", "length(1)", "matches('abc', '(')", "split('a b', '[')",
              "def down_zz(n) down_zz(n + 1) + 1; down_zz(0)", "date('x')", "int('q')", "chr(-1)", "sorted([1, 'a', [2]], cmp = 5)", "require no_such_module_zz",
              "'a' * 2 - []", "delete_at([], 'x')", "s('{undefined_zz}')", "eval('1 +')", "sublist(5, 1)", "[1, 2] !> map_list(5)", "s('{1 +}')", "s('a{)}b')", "s('{0x}')", "parse('1 +')"]
    for f in faults:
        cases += [
            ("def l = []; def r = do append(l, 1); %s; append(l, 2) catch all 'H' finally append(l, 3) end; [r, l]" % f, "(list (s 72) (list (i 1) (i 3)))"),
            ("def l = []; def r = do do append(l, 1); %s; append(l, 2) catch 'other' 'wrong' finally append(l, 3) end catch 'ERROR' 'H' finally append(l, 4) end; [r, l]" % f,
             "(list (s 72) (list (i 1) (i 3) (i 4)))"),
            ("def l = []; def g() do do append(l, 1); %s; append(l, 2) finally append(l, 3) end; append(l, 9) end; def r = []; for i in [1, 2] do append(r, do g() catch all e_zz 'H' end) end; [r, l]"
             .replace("catch all e_zz 'H'", "catch all 'H'") % f, "(list (list (s 72) (s 72)) (list (i 1) (i 3) (i 1) (i 3)))"),
            # the protected block in every position a do-block can take: the body of a named function and of a lambda (consisting of one
            # return statement, or ending in one), of a for and a while loop, the branch of an if
            ("def l = []; def g() do return do %s end catch all 'H' finally append(l, 3) end; [g(), l]" % f, "(list (s 72) (list (i 3)))"),
            ("def l = []; def g = fn() do return do %s end finally append(l, 3) end; def r = do g() catch all 'H' end; [r, l]" % f, "(list (s 72) (list (i 3)))"),
            ("def l = []; def g(x) do return do %s end; catch 'ERROR' 'H' end; [g(1), l]" % f, "(list (s 72) (list))"),
            ("def l = []; def g(x) do append(l, x); return do %s end catch all 'H' finally append(l, 3) end; [g(1), l]" % f, "(list (s 72) (list (i 1) (i 3)))"),
            ("def l = []; def g(x) do do %s end catch all 'H' finally append(l, 3) end; [g(1), l]" % f, "(list (s 72) (list (i 3)))"),
            ("def l = []; def r = []; for i in [1, 2] do append(l, i); %s; append(l, 9) catch all append(r, 'H') finally append(l, 3) end; [r, l]" % f,
             "(list (list (s 72) (s 72)) (list (i 1) (i 3) (i 2) (i 3)))"),
            ("def l = []; def r = if TRUE then do append(l, 1); %s catch all 'H' finally append(l, 3) end else 'no'; [r, l]" % f, "(list (s 72) (list (i 1) (i 3)))"),
            ("def i = 0; def r = []; while i < 2 do i += 1; %s catch all append(r, i) end; r" % f, "(list (i 1) (i 2))"),
        ]
    n = evalcheck.programs_oracle(rep, impl, cases, "scenario")
    I0 = impl.new_interpreter(False, False)
    for f in faults:
        out = impl.run_src(I0, "def l = []; do %s catch 'nomatch' 1 end" % f)
        rep.count()
        if out[:2] != ("err", ERRS):
            rep.violation("input", "the failure of %s, not matched by any handler, leaves the interpreter as %s (expected the runtime error 'ERROR')" % (f, out[:2]), check="uncaught", value=f)
    # an uncaught error leaves the interpreter as a runtime error carrying the value
    I = impl.new_interpreter(False, False)
    for v, want in (("'x'", "(s 120)"), ("[1, <<2>>]", "(list (i 1) (set (i 2)))"), ("NULL", "null"), ("7", "(i 7)")):
        out = impl.run_src(I, "def f() error %s; do f() catch 'other' 1 end" % v)
        rep.count()
        if out[:2] != ("err", want):
            rep.violation("input", "uncaught error %s leaves the interpreter as %s" % (v, out[:2]), check="uncaught", value=v)
    rep.cov["scenario_cases"] = n + 4


def main(tier, seed, replay=None):
    return evalcheck.run(
        "C05", "C05", "Props/C05.v", tier, seed, replay,
        rule=("generated nests (depth <= 4) of do/catch/finally blocks inside functions and loops, with user errors of every data kind and "
              "runtime errors (undefined name, division by zero, bad index, type error) injected at statement positions, handlers and finally "
              "parts that raise or return; each program keeps a trace list; distinct by source text, non-trivial when longer than 60 characters"),
        trusted=[], oracle=oracle)
