"""C18 - string functions satisfy the algebra of strings.
Deciding method: theorems in coq/Props/C18.v over a specification model of the string functions (all strings, no
bound); the model is tied to the interpreter's functions by a vm_compute correspondence on adversarial strings and
on all pairs from an exhaustive small set; the laws themselves (and host-string oracles) are also evaluated on the
implementation, which is where a failing input is found."""
import re

from vlib import core
from vlib.core import Report

IMPORTS = ("From Ckl Require Import Prelude.PyPrelude Model.StrSpec.\n"
           "Definition encl (l : list str) : list Z := zlen l :: flat_map (fun x => zlen x :: x) l.\n"
           "Definition b2z (b : bool) : list Z := [if b then 1 else 0].\n"
           "Definition ws_py (c : Z) : bool := mem_z c [9; 10; 11; 12; 13; 28; 29; 30; 31; 32; 133; 160; 5760; 8192; 8193; 8194; 8195; 8196; 8197; 8198; 8199; 8200; 8201; 8202; 8232; 8233; 8239; 8287; 12288].\n")
AL = list("ab,;|: .*+?()[]{}^$\\'\"\t\n-_/#%0x&<>") + ["é", "ß", "İ", "\xa0", " ", "\r", "\x1f", "€"]
SMALL = ["", "a", "b", "ab", "ba", "aa", "aba", "aaa", ".", "a.b", "|", "a|b", "'", "\\", "\t", "a\tb", "{", "}", "{a}", " a ", " ", "*", "(", "[a]", "a\nb", "é", "\"", "a'b", "$", "^a", "\\d", "ß", "\xa0a\xa0"]
PREFIX = "require String import [reverse, upper, lower, chr, ord]; "


def cps(s):
    return "[" + "; ".join(str(ord(c)) for c in s) + "]"


def enc_list(l):
    out = [len(l)]
    for x in l:
        out += [len(x)] + [ord(c) for c in x]
    return out


def main(tier, seed, replay=None):
    rep = Report("C18", tier, seed)
    core.setup_impl_path()
    from vlib import impl
    from ckl import values as V
    rnd = core.rng(seed, "C18")
    big = tier == "thorough"
    rep.rule = ("all ordered pairs from an exhaustive small set of %d strings and random strings of length 0..12 over an adversarial alphabet (separators, every regex "
                "metacharacter, both quotes, backslash, tab, CR, LF, braces, non-ASCII incl. characters whose case mapping changes length, non-breaking space); "
                "placeholders {v}, {v#w}, {v#-w}, {v#0w}, {v#.d}, {v#x} with int/string/decimal values inside random literal text; distinct by (function, arguments)") % len(SMALL)
    rep.trusted += ["specification model Model/StrSpec.v + Prelude/PyPrelude.v, faithful as far as the correspondence run shows (sampling)",
                    "case mapping and white space of the host for non-ASCII characters: host oracle on the implementation, theorem for every idempotent per-character map",
                    "placeholder expressions are parsed and evaluated by the interpreter: only the padding arithmetic and the untouched literal text are modelled",
                    "replace with an empty search text and find_last are outside the property's statement"]
    if replay:
        rep.no_evidence = True
        rep.oblige("replay: re-run the check (cases are regenerated from the seed)", True)
        return rep.finish()
    ok = core.standard_coq(rep, ["Proofs/StrProofs.vo"], "Props/C18.v")
    I = impl.new_interpreter(False, False)

    def conv(v):
        if isinstance(v, str):
            return V.ValueString(v)
        if isinstance(v, bool):
            return V.ValueBoolean.fromval(v)
        if isinstance(v, int):
            return V.ValueInt(v)
        if isinstance(v, float):
            return V.ValueDecimal(v)
        l = V.ValueList()
        for x in v:
            l.addItem(conv(x))
        return l

    def unconv(v):
        if isinstance(v, (V.ValueString, V.ValueBoolean, V.ValueInt, V.ValueDecimal)):
            return v.value
        if isinstance(v, V.ValueList):
            return [unconv(x) for x in v.value]
        if v is V.NULL:
            return None
        return ("other", str(v))

    def run(src, **vars):
        I.environment = I.base_environment.newEnv()
        for k, v in vars.items():
            I.environment.put(k, conv(v))
        try:
            return ("val", unconv(impl.with_timeout(lambda: I.interpret(PREFIX + src, "p"), 3)))
        except impl.Timeout:
            return ("timeout", None)
        except BaseException as e:
            return ("exc", type(e).__name__ + ": " + str(e)[:80])

    def gs(n=12):
        return "".join(rnd.choice(AL) for _ in range(rnd.randint(0, n)))

    fails = {}

    def chk(name, got, want, **ctx):
        rep.count()
        if got != ("val", want):
            fails[name] = fails.get(name, 0) + 1
            rep.violation("input", "%s: %s gives %r, the definition gives %r" % (name, ctx, got[1], want), check=name, **{k: repr(v) for k, v in ctx.items()})

    nrand = 1200 if not big else 12000
    pairs = [(s, t) for s in SMALL for t in SMALL] + [(gs(), gs(3)) for _ in range(nrand)] + [(gs(), rnd.choice(SMALL)) for _ in range(nrand)]
    # make occurrences likely: plant t inside s for a third of the random pairs
    pairs += [(a + t + b + t, t) for a, t, b in ((gs(4), gs(2), gs(4)) for _ in range(nrand))]
    for s, t in pairs:
        if t != "":
            chk("split", run("split(v1, escape_pattern(v2))", v1=s, v2=t), s.split(t) if s != "" else [], s=s, sep=t)
            chk("join-split", run("join(split(v1, escape_pattern(v2)), v2)", v1=s, v2=t), s, s=s, sep=t)
            u = rnd.choice(SMALL)
            chk("replace", run("replace(v1, v2, v3)", v1=s, v2=t, v3=u), s.replace(t, u), s=s, a=t, b=u)
            chk("replace-self", run("replace(v1, v2, v2)", v1=s, v2=t), s, s=s, a=t)
        w = t in s
        chk("contains", run("contains(v1, v2)", v1=s, v2=t), w, s=s, t=t)
        chk("in", run("v2 in v1", v1=s, v2=t), w, s=s, t=t)
        chk("find", run("find(v1, v2)", v1=s, v2=t), s.find(t), s=s, t=t)
        chk("contains-iff-find", run("contains(v1, v2) == (find(v1, v2) >= 0)", v1=s, v2=t), True, s=s, t=t)
        chk("starts_with", run("starts_with(v1, v2)", v1=s, v2=t), s.startswith(t), s=s, t=t)
        chk("ends_with", run("ends_with(v1, v2)", v1=s, v2=t), s.endswith(t), s=s, t=t)
        # the infix spellings say what the functions say
        chk("infix", run("[v1 starts with v2, v1 starts not with v2, v1 ends with v2, v1 ends not with v2, v1 contains v2, v1 contains not v2, v2 in v1, v2 not in v1, v2 is in v1, v2 is not in v1]", v1=s, v2=t),
            [s.startswith(t), not s.startswith(t), s.endswith(t), not s.endswith(t), w, not w, w, not w, w, not w], s=s, t=t)
        chk("concat", run("v1 + v2", v1=s, v2=t), s + t, s=s, t=t)
        chk("concat-laws", run("[length(v1 + v2) == length(v1) + length(v2), starts_with(v1 + v2, v1), ends_with(v1 + v2, v2), contains(v2 + v1 + v2, v1)]", v1=s, v2=t),
            [True, True, True, True], s=s, t=t)
    singles = SMALL + [gs() for _ in range(nrand)]
    for s in singles:
        chk("reverse", run("reverse(v1)", v1=s), s[::-1], s=s)
        chk("reverse-involution", run("reverse(reverse(v1))", v1=s), s, s=s)
        chk("upper", run("upper(v1)", v1=s), s.upper(), s=s)
        chk("lower", run("lower(v1)", v1=s), s.lower(), s=s)
        chk("case-idempotent", run("[upper(upper(v1)) == upper(v1), lower(lower(v1)) == lower(v1)]", v1=s), [True, True], s=s)
        chk("trim", run("trim(v1)", v1=s), s.strip(), s=s)
        chk("trim-idempotent", run("trim(trim(v1)) == trim(v1)", v1=s), True, s=s)
        chk("length", run("length(v1)", v1=s), len(s), s=s)
        chk("lines", run("lines(v1)", v1=s), re.split("\r?\n", s) if s else [], s=s)
        chk("words", run("words(v1)", v1=s), re.split("[ \t\r\n]+", s) if s else [], s=s)
        parts = [gs(3) for _ in range(rnd.randint(0, 4))]
        sep = rnd.choice(SMALL)
        chk("join", run("join(v1, v2)", v1=parts, v2=sep), sep.join(parts), parts=parts, sep=sep)
        chk("unlines", run("unlines(v1)", v1=parts), "\n".join(parts), parts=parts)
        chk("unwords", run("unwords(v1)", v1=parts), " ".join(parts), parts=parts)
    for c in sorted(set("".join(singles))):
        chk("chr-ord", run("chr(ord(v1))", v1=c), c, c=c)
        chk("ord", run("ord(v1)", v1=c), ord(c), c=c)
    for n in list(range(0, 300)) + [955, 8364, 0x1d11e, 0x10ffff]:
        chk("ord-chr", run("ord(chr(v1))", v1=n), n, n=n)
    # placeholders
    for _ in range(nrand):
        lit = [gs(5).replace("{", "").replace("}", "") for _ in range(3)]
        x = rnd.choice([0, 7, -12, 255, 10 ** 12])
        y = rnd.choice(["", "a", "a'b", "q{z}", "{", "}", "é\t", "\\", '"'])
        z = rnd.choice([1.5, -0.25, 3.14159, 100.0, 2.0, 2.71828, -7.891, 0.5])
        w = rnd.randint(0, 8)
        spec, exp = rnd.choice([("{x}", str(x)), ("{y}", y), ("{z}", repr(z)), ("{x#%d}" % w, str(x).rjust(w)), ("{x#-%d}" % w, str(x).ljust(w)),
                                ("{x#0%d}" % w, "0" * max(0, w - len(str(x))) + str(x)), ("{y#%d}" % w, y.rjust(w)), ("{y#-%d}" % w, y.ljust(w)),
                                ("{z#.1}", str(round(z, 1))), ("{z#%d.2}" % w, str(round(z, 2)).rjust(w)), ("{z#.0}", str(round(z, 0))), ("{z#%d.0}" % w, str(round(z, 0)).rjust(w)),
                                ("{z#.3}", str(round(z, 3))), ("{z#-%d.1}" % w, str(round(z, 1)).ljust(w)), ("{x#x}", "%x" % x if x >= 0 else "-%x" % -x)])
        tmpl = lit[0] + spec + lit[1]
        chk("s", run("s(t)", t=tmpl, x=x, y=y, z=z), lit[0] + exp + lit[1], template=tmpl, x=x, y=y, z=z)
        a = rnd.choice([x, y, z])
        ea = a if isinstance(a, str) else (str(a) if isinstance(a, int) else repr(a))
        chk("sprintf", run("sprintf(t, a, 'other')", t=lit[0] + "{0}" + lit[1] + "{0#5}" + lit[2] + "{1}", a=a), lit[0] + ea + lit[1] + ea.rjust(5) + lit[2] + "other", lit=lit, a=a)
        chk("s-no-placeholder", run("s(t)", t=lit[0] + lit[1]), lit[0] + lit[1], text=lit[0] + lit[1])
    for name in sorted(set(list(fails))):
        pass
    rep.oblige("every function and law agrees with its definition on the implementation (%d evaluations)" % rep.evaluations if hasattr(rep, "evaluations") else "laws on the implementation",
               not fails, "failing: %s" % fails)
    for s, t in pairs[:50]:
        rep.nontriv(repr((s, t)))
    for s, t in pairs:
        if t and t in s:
            rep.nontriv("occ" + repr((s, t)))
    rep.sample({"pair": repr(pairs[-1])})
    if ok:
        # ---- correspondence of the specification model with the interpreter's functions
        cp = [(s, t) for s in SMALL[:22] for t in SMALL[:22]] + [p for p in pairs[len(SMALL) ** 2:] if rnd.random() < 0.12]
        cp = [(s, t) for s, t in cp if len(s) <= 16]
        evals, expect, labels = [], [], []
        for s, t in cp:
            items = []
            exp = []
            if t != "":
                u = rnd.choice(SMALL)
                items += ["encl (ckl_split %s %s)" % (cps(s), cps(t)), "str_replace %s %s %s" % (cps(s), cps(t), cps(u))]
                exp += [run("split(v1, escape_pattern(v2))", v1=s, v2=t), run("replace(v1, v2, v3)", v1=s, v2=t, v3=u)]
                exp = [("val", enc_list(exp[0][1])) if exp[0][0] == "val" and isinstance(exp[0][1], list) else exp[0],
                       ("val", [ord(c) for c in exp[1][1]]) if exp[1][0] == "val" and isinstance(exp[1][1], str) else exp[1]]
            items += ["b2z (contains %s %s)" % (cps(s), cps(t)), "[str_find %s %s]" % (cps(s), cps(t)), "b2z (str_startswith %s %s)" % (cps(s), cps(t)),
                      "b2z (str_endswith %s %s)" % (cps(s), cps(t)), "rev %s" % cps(s), "trim ws_py %s" % cps(s)]
            r = [run("contains(v1, v2)", v1=s, v2=t), run("find(v1, v2)", v1=s, v2=t), run("starts_with(v1, v2)", v1=s, v2=t), run("ends_with(v1, v2)", v1=s, v2=t),
                 run("reverse(v1)", v1=s), run("trim(v1)", v1=s)]
            exp += [("val", [int(r[0][1])]) if r[0][0] == "val" else r[0], ("val", [r[1][1]]) if r[1][0] == "val" else r[1],
                    ("val", [int(r[2][1])]) if r[2][0] == "val" else r[2], ("val", [int(r[3][1])]) if r[3][0] == "val" else r[3],
                    ("val", [ord(c) for c in r[4][1]]) if r[4][0] == "val" else r[4], ("val", [ord(c) for c in r[5][1]]) if r[5][0] == "val" else r[5]]
            if s.isascii():
                items += ["map up_ascii %s" % cps(s), "map lo_ascii %s" % cps(s)]
                r = [run("upper(v1)", v1=s), run("lower(v1)", v1=s)]
                exp += [("val", [ord(c) for c in x[1]]) if x[0] == "val" else x for x in r]
            parts = [gs(3) for _ in range(rnd.randint(0, 4))]
            items.append("join %s [%s]" % (cps(t), "; ".join(cps(p) for p in parts)))
            r = run("join(v1, v2)", v1=parts, v2=t)
            exp.append(("val", [ord(c) for c in r[1]]) if r[0] == "val" else r)
            w = rnd.randint(0, 9)
            m, z = rnd.choice([(False, False), (True, False), (False, True)])
            v = str(rnd.choice([0, 7, -12, 255, 10 ** 12]))
            items.append("fmt_pad %s %s %d%%nat %s" % ("true" if m else "false", "true" if z else "false", w, cps(v)))
            r = run("s(t)", t="{x#%s%s%d}" % ("-" if m else "", "0" if z else "", w), x=int(v))
            exp.append(("val", [ord(c) for c in r[1]]) if r[0] == "val" else r)
            evals.append("[%s]" % "; ".join(items))
            expect.append(exp)
            labels.append((s, t))
        ok2, blocks, err = core.coq_eval_many("c18", IMPORTS, evals, per_file=40, timeout=900)
        rep.checker_cmds.append("coqc .work/c18_*.v (vm_compute of the specification model on %d argument pairs)" % len(cp))
        if not ok2:
            rep.oblige("C-correspondence: specification model evaluates", False, err)
        else:
            dis = 0
            for (s, t), got, exp in zip(labels, blocks, expect):
                for i, (g, e) in enumerate(zip(got, exp)):
                    rep.count()
                    if e != ("val", g):
                        dis += 1
                        rep.violation("correspondence", "specification model and interpreter disagree (item %d) on s=%r t=%r: model %s, interpreter %s" % (i, s, t, g[:30], str(e)[:120]),
                                      check="model", s=repr(s), t=repr(t), item=i)
            rep.oblige("C-correspondence: Model/StrSpec.v = the interpreter's split/replace/contains/find/starts_with/ends_with/reverse/trim/upper/lower/join/padding "
                       "on %d argument pairs" % len(cp), dis == 0, "%d disagreements" % dis)
    if big:
        core.coqchk(rep, "Ckl.Props.C18")
    return rep.finish()
