"""Shared by C10 / C11: module graphs on disk, session histories, the model run (vm_compute of Model/Session.v) and the
implementation run (real interpreters), and their comparison."""
import os
import shutil
import tempfile

from vlib import core

IMPORTS = """From Ckl Require Import Model.Session.
Definition enc_res (r : res Z) : list Z := match r with ROk z => [0; z] | RErr k => [1; k] | RFuel => [2; 0] end.
Definition enc_sval (nv : Z * sval) : list Z :=
  match nv with
  | (n, SInt z) => [n; 0; z]
  | (n, SMod id ex) => [n; 1; id; Z.of_nat (length ex)] ++ flat_map (fun p => [fst p; snd p]) ex
  end.
Definition enc_state (s : sstate) : list (list Z) :=
  [flat_map enc_sval (senv s); log (genv s); map fst (cache (genv s)); stack (genv s); flat_map (fun p => [fst p; snd p]) (cells (genv s))].
Definition enc_run (p : program) (h : list (bool * cmd)) : list (list Z) :=
  let '(s0, s1, os) := run_hist p h s_init s_init in flat_map enc_res os :: enc_state s0 ++ enc_state s1.
"""
TARGETS = ["Proofs/SessionProofs.vo"]
MODNAMES = {1: "ma", 2: "mb", 3: "mc", 4: "md", 5: "me", 6: "mmissing"}
PUB = [0, 1, 2, 3, 4]
PRIV = [-1, -2]
ALIASES = [10, 11, 12]


def vname(n):
    if n >= 1000:
        return MODNAMES[n - 1000]
    if n < 0:
        return "_p%d" % -n
    if n >= 10:
        return "q%d" % (n - 10)
    return "v%d" % n


def zl(n):
    return str(n) if n >= 0 else "(%d)" % n


# ------------------------------------------------------------------ forms, modules, commands: (python tuples)
def form_coq(f):
    if f[0] == "qual":
        return "(FQual %s)" % ("None" if f[1] is None else "(Some %s)" % zl(f[1]))
    if f[0] == "import":
        return "(FImport [%s])" % "; ".join("(%s, %s)" % (zl(a), zl(b)) for a, b in f[1])
    return "FUnqual"


def form_src(f, m):
    name = MODNAMES[m]
    if f[0] == "qual":
        return "require %s%s" % (name, "" if f[1] is None else " as " + vname(f[1]))
    if f[0] == "import":
        return "require %s import [%s]" % (name, ", ".join(vname(a) if a == b else "%s as %s" % (vname(a), vname(b)) for a, b in f[1]))
    return "require %s unqualified" % name


def gen_form(rnd):
    k = rnd.random()
    if k < 0.4:
        return ("qual", None if rnd.random() < 0.6 else rnd.choice(ALIASES))
    if k < 0.7:
        names = rnd.sample(PUB + PRIV, rnd.randint(0, 3))
        return ("import", [(a, a if rnd.random() < 0.5 or a < 0 else rnd.choice(PUB + ALIASES)) for a in names])
    return ("unqual",)


def gen_program(rnd, nmods=None, cyclic=None, failing=None):
    """module graph: {id: (parses, [stmts])}; stmts: ("def", x, v) ("req", form, m) ("try", form, m, x) ("fail",) ("log",)"""
    n = nmods or rnd.randint(1, 5)
    cyclic = rnd.random() < 0.35 if cyclic is None else cyclic
    failing = rnd.random() < 0.4 if failing is None else failing
    prog = {}
    for m in range(1, n + 1):
        body = [("log",)]
        for _ in range(rnd.randint(0, 5)):
            k = rnd.random()
            if k < 0.55:
                body.append(("def", rnd.choice(PUB + PUB + PRIV), rnd.randint(0, 99)))
            elif k < 0.9:
                targets = [t for t in range(1, n + 1) if (cyclic or t > m)] or [6]
                t = rnd.choice(targets + ([6] if rnd.random() < 0.08 else []))
                if rnd.random() < 0.3:
                    # the module handles a failure of the require itself: def x = do require ..; 1 catch all 0 end
                    body.append(("try", gen_form(rnd), t, rnd.choice(PUB + PRIV)))
                else:
                    body.append(("req", gen_form(rnd), t))
            elif failing and rnd.random() < 0.5:
                body.append(("fail",))
        parses = not (failing and rnd.random() < 0.12)
        prog[m] = (parses, body)
    return prog


def program_coq(prog):
    mods = []
    for m, (parses, body) in sorted(prog.items()):
        st = []
        for s in body:
            if s[0] == "def":
                st.append("MDef %s %s" % (zl(s[1]), zl(s[2])))
            elif s[0] == "req":
                st.append("MReq %s %s" % (form_coq(s[1]), zl(s[2])))
            elif s[0] == "try":
                st.append("MTry %s %s %s" % (form_coq(s[1]), zl(s[2]), zl(s[3])))
            elif s[0] == "fail":
                st.append("MFail")
            else:
                st.append("MLog")
        mods.append("(%d, mk_mod %s [%s])" % (m, "true" if parses else "false", "; ".join(st)))
    return "[%s]" % "; ".join(mods)


def write_program(prog, d):
    for m, (parses, body) in prog.items():
        lines = []
        if not parses:
            lines.append("def = ;")
        for s in body:
            if s[0] == "def":
                lines.append("def %s = %d;" % (vname(s[1]), s[2]))
            elif s[0] == "req":
                lines.append(form_src(s[1], s[2]) + ";")
            elif s[0] == "try":
                lines.append("def %s = do %s; 1 catch all 0 end;" % (vname(s[3]), form_src(s[1], s[2])))
            elif s[0] == "fail":
                lines.append("error 'boom';")
            else:
                lines.append("append(loadlog, %d);" % m)
        lines.append("def cell = [0];")
        lines.append("def bump() do cell[0] = cell[0] + 1; cell[0] end;")
        with open(os.path.join(d, MODNAMES[m] + ".ckl"), "w") as f:
            f.write("\n".join(lines) + "\n")


def cmd_coq(c):
    k = c[0]
    if k == "def":
        return "CDef %s %s" % (zl(c[1]), zl(c[2]))
    if k == "assign":
        return "CAssign %s %s" % (zl(c[1]), zl(c[2]))
    if k == "read":
        return "CRead %s" % zl(c[1])
    if k == "fail":
        return "CFail"
    if k == "compabort":
        return "CFail"      # a comprehension whose variable has the name of a session definition, aborted by an error: no effect, the error
    if k == "fnassignd":
        return "CAssign %s %s" % (zl(c[1]), zl(c[2]))      # a destructuring assignment made inside a call updates the session variable like a plain one
    if k == "callabort":
        return "CFail"      # a function (with and without parameters, named and anonymous) that defines a local with the name of a session definition, then fails
    if k == "loopshadow":
        return "CFail"      # a loop over a variable that has the name of a session definition, aborted by an error: no effect, the error
    if k == "syntax":
        return "CSyntax"
    if k == "defthenfail":
        return "CDefThenFail %s %s" % (zl(c[1]), zl(c[2]))
    if k == "loopabort":
        return "CLoopAbort %s" % zl(c[1])
    if k == "req":
        return "CReq %s %s" % (form_coq(c[1]), zl(c[2]))
    if k == "bump":
        return "CBump %s" % zl(c[1])
    if k == "cell":
        return "CCell %s" % zl(c[1])
    if k == "member":
        return "CMember %s %s" % (zl(c[1]), zl(c[2]))
    raise ValueError(c)


def cmd_src(c):
    k = c[0]
    if k == "def":
        return "def %s = %d" % (vname(c[1]), c[2])
    if k == "assign":
        return "%s = %d" % (vname(c[1]), c[2])
    if k == "read":
        return vname(c[1])
    if k == "fail":
        return "error 'boom'"
    if k == "compabort":
        v = vname(c[1])
        forms = ["[if %s == 4 then error 'boom' else %s for zq in [1] for %s in [3, 4]]", "[if %s == 4 then error 'boom' else %s for %s in [3, 4]]",
                 "<<if %s == 4 then error 'boom' else %s for %s in [3, 4]>>", "<<<%s => if %s == 4 then error 'boom' else 1 for %s in [3, 4]>>>",
                 "[if %s == 4 then error 'boom' else %s for zq in [1, 2] also for %s in [3, 4]]", "<<if %s == 4 then error 'boom' else %s for zq in [1] for %s in [3, 4]>>",
                 "[if %s == 4 then error 'boom' else %s for %s in [3, 4] for zq in [1]]"]
        return forms[c[2] % len(forms)] % (v, v, v)
    if k == "fnassignd":
        forms = ["(fn() do [%s] = [%d] end)()", "(fn(zq) do [%s] = [zq] end)(%d)", "(fn() do [%s, %s] = [%d, %d]; %s end)()"]
        f = forms[c[2] % len(forms)]
        v = vname(c[1])
        return f % ((v, c[2]) if f.count("%") == 2 else (v, v, c[2], c[2], v))
    if k == "callabort":
        v = vname(c[1])
        forms = ["(fn() do def %s = 41; %s += 1; error 'boom' end)()", "(fn(zq) do def %s = zq; %s += 1; error 'boom' end)(41)",
                 "(fn() do def zf() do def %s = 41; %s += 1; error 'boom' end; zf() end)()", "(fn(zq = 41) do def %s = zq; %s += 1; error 'boom' end)()",
                 "<*go = fn(self) do def %s = 41; %s += 1; error 'boom' end*>->go()", "[1] !> (fn(zq) do def %s = zq; %s += 1; error 'boom' end)()"]
        return forms[c[2] % len(forms)] % (v, v)
    if k == "loopshadow":
        return "for %s in [1, 2, 3] do if %s == 2 then error 'boom' end" % (vname(c[1]), vname(c[1]))
    if k == "syntax":
        return "def = ;"
    if k == "defthenfail":
        return "def %s = %d; error 'boom'" % (vname(c[1]), c[2])
    if k == "loopabort":
        v = vname(c[1])
        return "for i in [1, 2, 3] do %s = %s + i; if i == 2 then error 'boom' end" % (v, v)
    if k == "req":
        return form_src(c[1], c[2])
    if k == "bump":
        return "%s->bump()" % vname(c[1])
    if k == "cell":
        return "%s->cell[0]" % vname(c[1])
    if k == "member":
        return "%s->%s" % (vname(c[1]), vname(c[2]))
    raise ValueError(c)


def hist_coq(h):
    return "[%s]" % "; ".join("(%s, %s)" % ("true" if i else "false", cmd_coq(c)) for i, c in h)


# ------------------------------------------------------------------ implementation
class Session:
    def __init__(self, moddir):
        from vlib import impl
        from ckl.values import ValueList, ValueString
        self.I = impl.new_interpreter(False, False)
        self.I.base_environment.put("checkerlang_module_path", ValueList().addItem(ValueString(moddir)))
        self.log = ValueList()
        self.I.base_environment.put("loadlog", self.log)

    def run(self, c):
        """-> ([0, z] | [1, kind], error text or None)"""
        from vlib import impl
        from ckl.errors import CklRuntimeError, CklSyntaxError
        from ckl import values as V
        try:
            r = impl.with_timeout(lambda: self.I.interpret(cmd_src(c), "session"), 5.0)
        except CklSyntaxError as e:
            fn = e.pos.filename if e.pos else ""
            return [1, 7 if fn.startswith("mod:") else 3], str(e)
        except CklRuntimeError as e:
            msg = str(e)
            fn = e.pos.filename if e.pos else ""
            if "ircular" in msg:
                k = 5
            elif "not found" in msg and "Module" in msg:
                k = 4
            elif "boom" in msg:
                k = 6 if fn.startswith("mod:") else 2
            elif "not defined" in msg:
                k = 1
            else:
                k = 8
            return [1, k], msg
        except impl.Timeout:
            return [9, 0], "timeout"
        except BaseException as e:
            return [9, 1], "host %s: %s" % (type(e).__name__, e)
        if isinstance(r, V.ValueInt):
            return [0, r.value], None
        if c[0] == "req":
            return [0, 0], None
        if isinstance(r, V.ValueObject):
            return [0, -1], None
        if c[0] == "member" and r is V.NULL:
            return [1, 8], "no such member"         # the language answers NULL for a member that is not there
        return [9, 2], "unexpected value %s" % r

    def observe(self):
        """(scope, log, cache ids, stack, cells) in the model's vocabulary"""
        from ckl import values as V
        rev = {v: k for k, v in MODNAMES.items()}
        names = {}
        for n in list(range(0, 5)) + [10, 11, 12, -1, -2] + [1000 + m for m in MODNAMES]:
            names[vname(n)] = n
        scope = {}
        for name, val in self.I.environment.map.items():
            if name in ("cell", "bump"):
                continue          # implicit members of every generated module (see DESIGN.md)
            key = names.get(name, name)
            if isinstance(val, V.ValueInt):
                scope[key] = val.value
            elif isinstance(val, V.ValueObject):
                ex = {}
                for k, v in val.value.items():
                    if isinstance(v, V.ValueInt):
                        ex[names.get(k, k)] = v.value
                scope[key] = ("mod", tuple(sorted(ex.items(), key=repr)))
            else:
                scope[key] = ("other", str(val)[:40])
        base = self.I.base_environment
        cells = {}
        for mid, env in base.modules.items():
            if mid in rev and "cell" in env.map:
                cells[rev[mid]] = env.map["cell"].value[0].value
        return (scope, [x.value for x in self.log.value], sorted(rev.get(k, k) for k in base.modules if k in rev), list(base.modulestack), cells)


def decode_state(lists):
    envl, log, cacheids, stack, cellsl = lists
    scope = {}
    i = 0
    while i < len(envl):
        n, tag = envl[i], envl[i + 1]
        if tag == 0:
            scope[n] = envl[i + 2]
            i += 3
        else:
            cnt = envl[i + 3]
            ex = {}
            for j in range(cnt):
                ex[envl[i + 4 + 2 * j]] = envl[i + 5 + 2 * j]
            scope[n] = ("mod", tuple(sorted(ex.items(), key=repr)))
            i += 4 + 2 * cnt
    cells = {cellsl[j]: cellsl[j + 1] for j in range(0, len(cellsl), 2)}
    return (scope, log, sorted(cacheids), stack, cells)


def norm_scope(scope):
    """module objects: the model's snapshot holds the exports at require time; so does the implementation's object"""
    return {k: v for k, v in scope.items()}


def run_impl(prog, hist, repeat_failures=False):
    """-> (outcomes, obs0, obs1, repeat_problems).  With repeat_failures every failed call is issued a second time at once
    (a separate use of this function: the repetition re-runs the top-level code of a failing module, which the load log
    records, so such a run is not compared with the model's single run)."""
    d = tempfile.mkdtemp(prefix="sess_", dir=core.WORK)
    try:
        write_program(prog, d)
        S = [Session(d), Session(d) if any(i for i, _ in hist) else None]
        outs = []
        problems = []
        for inst, c in hist:
            s = S[1 if inst else 0]
            o, msg = s.run(c)
            outs.append(o)
            if repeat_failures and o[0] == 1 and c[0] not in ("defthenfail", "loopabort"):
                before = s.observe()
                o2, msg2 = s.run(c)
                after = s.observe()
                # the load log is the record of module code that ran: a failing module runs again when required again
                b2 = (before[0], before[2], before[3], before[4])
                a2 = (after[0], after[2], after[3], after[4])
                if (o2, msg2) != (o, msg) or b2 != a2:
                    problems.append((c, msg, msg2, b2 != a2))
        return outs, S[0].observe(), S[1].observe() if S[1] else ({}, [], [], [], {}), problems
    finally:
        shutil.rmtree(d, ignore_errors=True)


def _impl_case(args):
    import sys
    p, h, repeat = args
    core.setup_impl_path()
    outs, o0, o1, _ = run_impl(p, h, False)
    problems = run_impl(p, h, True)[3] if repeat and any(o[0] == 1 for o in outs) else []
    return outs, o0, o1, problems


def correspondence(rep, cases, tag, per_file=60, repeat_failures=True):
    """cases: [(prog, hist)]; compares outcomes and final states of the model and the implementation"""
    evals = ["enc_run %s %s" % (program_coq(p), hist_coq(h)) for p, h in cases]
    ok, blocks, err = core.coq_eval_many(tag, IMPORTS, evals, per_file=per_file, timeout=1500)
    rep.checker_cmds.append("coqc .work/%s_*.v (vm_compute of Model/Session.v on %d histories)" % (tag, len(cases)))
    if not ok:
        rep.oblige("C-correspondence: session model evaluates", False, err)
        return
    dis = rp = 0
    import multiprocessing
    with multiprocessing.Pool(16) as pool:
        impl_results = pool.map(_impl_case, [(p, h, repeat_failures) for p, h in cases], chunksize=20)
    for (p, h), blk, ires in zip(cases, blocks, impl_results):
        rep.count()
        flat = blk[0]
        mouts = [flat[i:i + 2] for i in range(0, len(flat), 2)]
        m0 = decode_state(blk[1:6])
        m1 = decode_state(blk[6:11])
        outs, o0, o1, problems = ires
        src = [("B: " if i else "A: ") + cmd_src(c) for i, c in h]
        if mouts != outs or m0 != o0 or m1 != o1:
            dis += 1
            what = []
            for k, (a, b) in enumerate(zip(mouts, outs)):
                if a != b:
                    what.append("command %d (%s): model %s, interpreter %s" % (k, src[k], a, b))
                    break
            if not what:
                for nm, a, b in (("A", m0, o0), ("B", m1, o1)):
                    for part, x, y in zip(("scope", "load log", "cache", "load stack", "cells"), a, b):
                        if x != y:
                            what.append("final %s of instance %s: model %s, interpreter %s" % (part, nm, x, y))
            rep.violation("correspondence", "session model and interpreter disagree: %s; history %s; modules %s" % ("; ".join(what[:2]), src, program_coq(p)),
                          check="session", history=src, modules=program_coq(p))
        for c, msg, msg2, changed in problems:
            rp += 1
            rep.violation("input", "repeating the failed call %r gives %r after %r%s; history %s" % (cmd_src(c), msg2, msg, " and changes the state" if changed else "", src),
                          check="repeat", history=src, modules=program_coq(p))
    rep.oblige("C-correspondence: Model/Session.v = real interpreters on %d histories (every outcome, final scopes, load logs, caches, load stacks, module state)" % len(cases),
               dis == 0, "%d disagreements" % dis)
    if repeat_failures:
        rep.oblige("a failed call repeated at once gives the same error and leaves the same state", rp == 0, "%d differences" % rp)
