"""C04 - conditionals, loops, comprehensions and early exits have structured semantics.
Deciding method: theorems in coq/Props/C04.v about if_sem/for_sem/while_sem/call_closure (for every
condition and body), tied to nodes.py by the evaluator correspondence on generated loop nests with exits at
every statement position and every iteration / comprehension form; comprehension-versus-loop equivalence
and iteration orders are also searched on the implementation."""
from checks import evalcheck
from vlib import gal, datagen


def oracle(rep, rnd, tier, impl):
    I = impl.new_interpreter(False, False)
    n = 0
    colls = ["[3, 1, 2, 1]", "<<3, 1, 2>>", "<<'b', 'a', 'c'>>", "'hey'", "[]", "<<>>", "''", "range(4)", "[[1, 2], [3, 4]]"]
    maps = ["<<< 2 => 'b', 1 => 'z', 3 => 'a' >>>", "<<<>>>", "<<< 'k' => 1 >>>"]
    for c in colls + maps:
        whats = ["", "keys ", "values ", "entries "] if c.startswith("<<<") else [""]
        for w in whats:
            for cond in ("", " if string(x) != '1'"):
                loop = "def r = []; for x in %s%s do %sappend(r, [x]) end; r" % (w, c, ("if string(x) != '1' then " if cond else ""))
                comp = "[[x] for x in %s%s%s]" % (w, c, cond)
                scomp = "list(<< [x] for x in %s%s%s >>) == list(set([[x] for x in %s%s%s]))" % (w, c, cond, w, c, cond)
                a, b = impl.run_src(I, loop), impl.run_src(I, comp)
                n += 1
                rep.nontriv(comp)
                if a[:2] != b[:2] or a[0] != "val":
                    rep.violation("input", "comprehension %s gives %s but the equivalent loop %s gives %s" % (comp, b[:2], loop, a[:2]),
                                  check="comp-vs-loop", program=comp, want=a[1] if a[0] == "val" else "?")
                s = impl.run_src(I, scomp)
                if s[:2] != ("val", "(b 1)"):
                    rep.violation("input", "%s gives %s" % (scomp, s[:2]), check="comp-vs-loop", program=scomp, want="(b 1)")
    # product and parallel forms against nested loops
    for a_, b_ in (("[1, 2, 3]", "[10, 20]"), ("<<2, 1>>", "'ab'"), ("[]", "[1]"), ("[1]", "[]")):
        loop = "def r = []; for x in %s do for y in %s do append(r, [x, y]) end end; r" % (a_, b_)
        comp = "[[x, y] for x in %s for y in %s]" % (a_, b_)
        x, y = impl.run_src(I, loop), impl.run_src(I, comp)
        n += 1
        if x[:2] != y[:2]:
            rep.violation("input", "%s gives %s but the nested loops give %s" % (comp, y[:2], x[:2]), check="comp-vs-loop", program=comp,
                          want=x[1] if x[0] == "val" else "?")
    cases = [
        ("[[a, b] for a in [1, 2, 3] also for b in [7]]", "(list (list (i 1) (i 7)) (list (i 2) null) (list (i 3) null))"),
        ("def r = []; for x in [1, 2, 3] do for y in [1, 2, 3] do if y == 2 then break; append(r, [x, y]) end end; r",
         "(list (list (i 1) (i 1)) (list (i 2) (i 1)) (list (i 3) (i 1)))"),
        ("def r = []; for x in [1, 2, 3] do for y in [1, 2, 3] do if y == 2 then continue; append(r, 10 * x + y) end end; r",
         "(list (i 11) (i 13) (i 21) (i 23) (i 31) (i 33))"),
        ("def f() do for x in [1, 2, 3] do for y in [4, 5] do if y == 5 then return [x, y] end end; 0 end; f()", "(list (i 1) (i 5))"),
        ("def n = 0; def c = 0; def t() do c += 1; n < 3 end; while t() do n += 1; if n == 2 then continue end; [n, c]", "(list (i 3) (i 4))"),
        ("if FALSE then 1 elif TRUE then 2 elif TRUE then 3 else 4", "(i 2)"),
        ("def r = []; def c(x) do append(r, x); x > 1 end; if c(1) then 'a' elif c(2) then 'b' elif c(3) then 'c'; r", "(list (i 1) (i 2))"),
    ]
    n += evalcheck.programs_oracle(rep, impl, cases, "scenario")
    rep.count(n)
    rep.cov["oracle_cases"] = n


def main(tier, seed, replay=None):
    return evalcheck.run(
        "C04", "C04", "Props/C04.v", tier, seed, replay,
        rule=("generated nests of loops (depth <= 3) with break/continue/return at statement positions, iteration over lists, ranges, sets, "
              "maps (keys, values, entries, destructured pairs) and strings, every comprehension form (single, product, parallel, with if), "
              "if/elif/else chains; comprehension-versus-loop equivalence over every collection kind; distinct by source text"),
        trusted=["C04_comprehension (a comprehension equals the explicit loop) is not a theorem: decided by the correspondence and the "
                 "comprehension-versus-loop search on the implementation"], oracle=oracle)
