"""C19 - collection and numeric library functions satisfy their defining laws.

Deciding method: theorems in coq/Props/C19.v about the specification functions of
Model/Coll.v (textbook definitions; the bitwise natives statement by statement), tied to the
library (natives + modules written in the language) by a vm_compute correspondence on generated
lists/sets/ints, plus permutation invariance and exactness searched on the implementation."""
import itertools
import math
import statistics

from vlib import core, gal, datagen
from vlib.core import Report, zlit, zlist

IMPORTS = ("From Coq Require Import PrimFloat.\nFrom Ckl Require Import Prelude.PyPrelude Prelude.Enc Model.Values Model.Containers "
           "Model.Sorting Model.Coll Model.Arith Model.EncVal.\n"
           "Definition zl (l : list Z) := DList (map DInt l).\n"
           "Definition oz (o : option Z) : list Z := match o with Some z => [0; z] | None => [1] end.\n")

ELEMS = [1, 2, 3, 1.0, 2.5, "a", "b", "1", 7, -1, 2.0, "", 2 ** 64]
WORDS = [0, 1, 2, 3, 0x7FFFFFFF, 0x80000000, 0x80000001, 0xFFFFFFFF, 0xFFFFFFFE, 0x55555555, 0xAAAAAAAA, 0x0000FFFF, 0xFFFF0000,
         0x12345678, 0x00010000, 0x40000000]
BIG = [0, 1, -1, 2, 3, 6, -6, 12, 35, 2 ** 31, 2 ** 32 + 1, -(2 ** 63), 2 ** 64, 2 ** 80 + 1, 10 ** 20, -(10 ** 19) - 7, 17, 2 ** 40 * 3]


def rlist(rnd, n=None, pool=ELEMS):
    n = rnd.randint(0, 8) if n is None else n
    return [rnd.choice(pool) for _ in range(n)]


def main(tier, seed, replay=None):
    rep = Report("C19", tier, seed)
    core.setup_impl_path()
    from vlib import impl
    rnd = core.rng(seed, "C19")
    rep.rule = ("random lists and sets of length <= 8 over ints, decimals and strings with duplicates and 1 versus 1.0 for the set operations, "
                "unique, flatten, zip, enumerate, chunks, pairs, grouped, filter, map_list, reduce, sum, prod, reverse; range/interval over a grid "
                "of (a, b, step) including negative and zero steps; all permutations of lists of length <= 5 for mean/median/median_low/"
                "median_high/min/max; int arguments up to 2^80 for pow, gcd, lcm, abs, sign; all boundary words x shift counts 0..40 for the "
                "bitwise functions; distinct by program text, non-trivial when an argument is non-empty / non-zero")
    rep.trusted += ["coq/Model/Coll.v: specification functions; the library is tied to them only by the correspondence run (sampling)",
                    "mean and sum over decimals are order dependent in the last bits (recorded finding C19-F5): permutation invariance of mean is "
                    "checked on ints and exactly representable decimals"]
    I = impl.new_interpreter(False, False)
    I.interpret("require List unqualified; require Set unqualified; require Stat unqualified; require Math unqualified; "
                "require Bitwise unqualified; require Core unqualified;", "prelude")
    if replay:
        return do_replay(rep, replay, I, impl)
    ok = core.standard_coq(rep, ["Proofs/CollProofs.vo", "Model/EncVal.vo"], "Props/C19.v")
    cases = []   # (program, gallina term : list Z, how)  how in {"dval", "zlist", "z", "oz", "zll", "dll"}
    N = 150 if tier != "thorough" else 1500

    def dl(l):
        return "[%s]" % "; ".join(gal.dval(x) for x in l)

    for _ in range(N):
        a, b = rlist(rnd), rlist(rnd)
        for fn, sp in (("union", "sp_union"), ("intersection", "sp_intersection"), ("diff", "sp_diff"), ("symmetric_diff", "sp_symdiff")):
            if rnd.random() < 0.5:
                cases.append(("%s(%s, %s)" % (fn, gal.src(a), gal.src(b)), "enc_dval (DSet (%s %s %s))" % (sp, dl(a), dl(b)), "dval"))
            else:
                sa, sb = datagen.mkset(a), datagen.mkset(b)
                # a set argument is enumerated in ascending order by the library: give the model the same order
                # (only same-kind sets so that the order is defined by the property)
                ka = [x for x in sa if isinstance(x, (int, float))]
                kb = [x for x in sb if isinstance(x, (int, float))]
                ka.sort()
                kb.sort()
                ka = list(datagen.mkset(ka))
                kb = list(datagen.mkset(kb))
                cases.append(("%s(%s, %s)" % (fn, gal.src(gal.SetV(tuple(reversed(ka)))), gal.src(gal.SetV(tuple(kb)))),
                              "enc_dval (DSet (%s %s %s))" % (sp, dl(ka), dl(kb)), "dval"))
        cases.append(("unique(%s)" % gal.src(a), "enc_dval (DList (sp_unique %s))" % dl(a), "dval"))
        cases.append(("reverse(%s)" % gal.src(a), "enc_dval (DList (rev %s))" % dl(a), "dval"))
        nested = [x if rnd.random() < 0.6 else rlist(rnd, rnd.randint(0, 3)) for x in a]
        cases.append(("flatten(%s)" % gal.src(nested), "enc_dval (DList (sp_flatten %s))" % dl(nested), "dval"))
        cases.append(("zip(%s, %s)" % (gal.src(a), gal.src(b)), "enc_dval (DList (sp_zip %s %s))" % (dl(a), dl(b)), "dval"))
        cases.append(("enumerate(%s)" % gal.src(a), "enc_dval (DList (sp_enumerate %s))" % dl(a), "dval"))
        cases.append(("pairs(%s)" % gal.src(a), "enc_dval (DList (sp_pairs %s))" % dl(a), "dval"))
        g = [rnd.choice([1, 1, 2, 1.0, "a", "a", 3]) for _ in range(rnd.randint(0, 8))]
        cases.append(("grouped(%s)" % gal.src(g), "enc_dval (DList (map DList (sp_grouped %s)))" % dl(g), "dval"))
        n = rnd.randint(1, 4)
        cases.append(("chunks(%s, %d)" % (gal.src(a), n), "enc_dval (DList (map DList (sp_chunks %d %s)))" % (n, dl(a)), "dval"))
        zs = [rnd.choice([0, 1, 2, 3, -4, 7, 10, 2 ** 40, -(2 ** 70)]) for _ in range(rnd.randint(0, 7))]
        cases.append(("filter(%s, fn(x) x %% 2 == 0)" % gal.src(zs), "enc_dval (zl (filter Z.even %s))" % zlist(zs), "dval"))
        cases.append(("map_list(%s, fn(x) x * 2 + 1)" % gal.src(zs), "enc_dval (zl (map (fun x => x * 2 + 1) %s))" % zlist(zs), "dval"))
        cases.append(("sum(%s)" % gal.src(zs), "[0; sp_sum %s]" % zlist(zs), "z"))
        if zs:
            cases.append(("reduce(%s, fn(a, b) a * 2 + b)" % gal.src(zs), "oz (sp_reduce (fun a b => a * 2 + b) %s)" % zlist(zs), "oz"))
            cases.append(("prod(%s)" % gal.src(zs), "oz (sp_prod %s)" % zlist(zs), "oz"))
            cases.append(("[min(%s), max(%s)]" % (gal.src(zs), gal.src(zs)),
                          "oz (sp_min %s) ++ oz (sp_max %s)" % (zlist(zs), zlist(zs)), "oz2"))
            cases.append(("[median_low(%s), median_high(%s)]" % (gal.src(zs), gal.src(zs)),
                          "oz (sp_median_low %s) ++ oz (sp_median_high %s)" % (zlist(zs), zlist(zs)), "oz2"))
    grid = [-7, -3, -1, 0, 1, 2, 5, 10]
    steps = [-3, -2, -1, 0, 1, 2, 3, 7]
    for a in grid:
        for b in grid:
            for s in steps:
                if tier == "thorough" or rnd.random() < 0.5:
                    cases.append(("range(%d, %d, step = %d)" % (a, b, s), "enc_dval (zl (sp_range %s %s %s))" % (zlit(a), zlit(b), zlit(s)), "dval"))
            cases.append(("interval(%d, %d)" % (a, b), "enc_dval (zl (sp_interval %s %s))" % (zlit(a), zlit(b)), "dval"))
        cases.append(("range(%d)" % a, "enc_dval (zl (sp_range 0 %s 1))" % zlit(a), "dval"))
    for a in BIG:
        for b in BIG:
            if tier == "thorough" or rnd.random() < 0.6:
                # sp_gcd recurses on unary fuel |b|: run it on small arguments, and Z.gcd / Z.lcm (equal to it by
                # C19_gcd / C19_lcm) on the large ones
                if abs(b) <= 1000:
                    cases.append(("[gcd(%s, %s), lcm(%s, %s)]" % (gal.src(a), gal.src(b), gal.src(a), gal.src(b)),
                                  "[0; sp_gcd %s %s; 0; sp_lcm %s %s]" % (zlit(a), zlit(b), zlit(a), zlit(b)), "oz2"))
                else:
                    cases.append(("[gcd(%s, %s), lcm(%s, %s)]" % (gal.src(a), gal.src(b), gal.src(a), gal.src(b)),
                                  "[0; Z.gcd %s %s; 0; Z.lcm %s %s]" % (zlit(a), zlit(b), zlit(a), zlit(b)), "oz2"))
        cases.append(("[abs(%s), sign(%s)]" % (gal.src(a), gal.src(a)), "[0; Z.abs %s; 0; sp_sign %s]" % (zlit(a), zlit(a)), "oz2"))
        for y in (0, 1, 2, 3, 5, 13, 40, 64):
            cases.append(("pow(%s, %d)" % (gal.src(a), y), "[0; %s ^ %d]" % (zlit(a), y), "z"))
    for w in WORDS:
        for n in range(0, 41):
            if tier == "thorough" or rnd.random() < 0.4:
                cases.append(("[bit_shift_left(%d, %d), bit_shift_right(%d, %d), bit_rotate_left_32(%d, %d), bit_rotate_right_32(%d, %d)]" % (
                    w, n, w, n, w, n, w, n), "[w_shl %d %d; w_shr %d %d; w_rotl %d %d; w_rotr %d %d]" % (w, n, w, n, w, n, w, n), "zlist"))
        for v in WORDS:
            cases.append(("[bit_and_32(%d, %d), bit_or_32(%d, %d), bit_xor_32(%d, %d), bit_not_32(%d)]" % (w, v, w, v, w, v, w),
                          "[w_and %d %d; w_or %d %d; w_xor %d %d; w_not %d]" % (w, v, w, v, w, v, w), "zlist"))
    if ok:
        per = 40
        evals = ["[%s]" % "; ".join(c[1] for c in cases[i:i + per]) for i in range(0, len(cases), per)]
        ok2, blocks, err = core.coq_eval_many("c19", IMPORTS, evals, per_file=8, timeout=900)
        rep.checker_cmds.append("coqc .work/c19_*.v (vm_compute of the specification functions on the generated cases)")
        if not ok2:
            rep.oblige("correspondence: specification functions evaluate", False, err)
        else:
            got = [x for b in blocks for x in b]
            dis = 0
            fam = {}
            for (prog, _, how), m in zip(cases, got):
                out = gal.impl_outcome(impl.run_src(I, prog))
                if how == "dval":
                    want = ("val", gal.decode_dval(m)[0])
                elif how == "z":
                    want = ("val", "(i %d)" % m[1])
                elif how == "oz":
                    want = ("val", "(i %d)" % m[1]) if m[0] == 0 else ("err",)
                elif how == "oz2":
                    want = ("val", "(list (i %d) (i %d))" % (m[1], m[3])) if m[0] == 0 and m[2] == 0 else ("err",)
                else:
                    want = ("val", "(list" + "".join(" (i %d)" % z for z in m) + ")")
                rep.count()
                f = prog.split("(")[0].strip("[")
                fam[f] = fam.get(f, 0) + 1
                if "[]" not in prog.replace("[[", "") or len(prog) > 30:
                    rep.nontriv(prog)
                if out != want:
                    dis += 1
                    rep.violation("input", "%s gives %s, the defining law gives %s" % (prog, out, want), check="spec", program=prog, want=list(want))
            rep.oblige("correspondence: %d library calls agree with the specification functions" % len(cases), dis == 0, "%d disagreements" % dis)
            rep.cov["calls_per_function"] = fam
            for k in (3, len(cases) // 3, len(cases) - 5):
                rep.sample({"program": cases[k][0], "spec_term": cases[k][1], "spec_value": got[k]})
    invariance(rep, rnd, tier, I, impl)
    if tier == "thorough":
        core.coqchk(rep, "Ckl.Props.C19")
    return rep.finish()


def invariance(rep, rnd, tier, I, impl):
    """permutation invariance of mean/median/.../min/max on the implementation: all permutations of lists of length <= 5"""
    n = 0
    pool = [1, 2, 3, 5, 7, -4, 1.0, 2.5, 0.5, -1.5, 10, 4]
    for _ in range(25 if tier != "thorough" else 250):
        k = rnd.choice([1, 2, 3, 3, 4, 4, 5])
        base = [rnd.choice(pool) for _ in range(k)]
        first = None
        for perm in sorted(set(itertools.permutations(base)), key=repr):
            prog = "def l = %s; [mean(l), median(l), median_low(l), median_high(l), min(l), max(l), sum(l), prod(l)]" % gal.src(list(perm))
            out = impl.run_src(I, prog)
            n += 1
            rep.nontriv(prog)
            ref_vals = [statistics.mean(base), statistics.median(base), statistics.median_low(base), statistics.median_high(base), min(base), max(base),
                        sum(base), math.prod(base)]
            if first is None:
                first = (out, prog)
                # value check against the textbook definitions (numerically)
                if out[0] == "val":
                    import re
                    nums = re.findall(r"\((?:i|d) ([^)]+)\)", out[1])
                    vals = [int(x) if not x.startswith(("0x", "-0x")) else float.fromhex(x) for x in nums]
                    if len(vals) != 8 or any(abs(float(a) - float(b)) > 1e-9 * max(1.0, abs(float(b))) for a, b in zip(vals, ref_vals)):
                        rep.violation("input", "%s gives %s, the definitions give %s" % (prog, out, ref_vals), check="stat", program=prog, want=str(ref_vals))
                else:
                    rep.violation("input", "%s gives %s" % (prog, out), check="stat", program=prog, want=str(ref_vals))
            elif not same_numbers(out, first[0]):
                rep.violation("input", "permutation changes the result: %s gives %s but %s gives %s" % (prog, out, first[1], first[0]),
                              check="perm", program=prog, other=first[1])
    # recorded finding: float summation order
    prog = "[mean([10000000000000000.0, 1.0, -10000000000000000.0]) == mean([10000000000000000.0, -10000000000000000.0, 1.0])]"
    out = impl.run_src(I, prog)
    n += 1
    if out != ("val", "(list (b 1))"):
        rep.violation("input", "%s gives %s" % (prog, out), check="float-sum-order", program=prog)
    rep.count(n)
    rep.cov["permutation_cases"] = n


def same_numbers(a, b):
    """equal up to the representative of equal numbers (1 vs 1.0 are equal values)"""
    if a[0] != "val" or b[0] != "val":
        return a == b
    import re
    fa = re.findall(r"\((?:i|d) ([^)]+)\)", a[1])
    fb = re.findall(r"\((?:i|d) ([^)]+)\)", b[1])
    conv = lambda x: float.fromhex(x) if "x" in x else int(x)
    return len(fa) == len(fb) and all(conv(x) == conv(y) for x, y in zip(fa, fb))


def do_replay(rep, path, I, impl):
    import json
    body = json.load(open(path))
    rep.no_evidence = True
    n = 0
    for v in body.get("violations", []):
        prog = v.get("program")
        if not prog:
            continue
        out = gal.impl_outcome(impl.run_src(I, prog))
        if v.get("check") == "spec":
            if list(out) != list(v["want"]):
                print("REPRODUCED: %s gives %s, the defining law gives %s" % (prog, out, v["want"]))
                rep.violation("input", "%s gives %s" % (prog, out), check="spec", program=prog, want=v["want"])
                n += 1
        else:
            print("RECORDED (%s): %s now gives %s" % (v.get("check"), prog, out))
        rep.count()
    if not n:
        print("replay: nothing reproduced")
    rep.oblige("replay ran", True)
    return rep.finish()
